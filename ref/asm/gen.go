package asm

import (
	"fmt"
	"strings"

	"verif/ref/mars"
)

// GenOpts steers the program generator.
type GenOpts struct {
	Cfg         Config
	MaxLines    int
	UseLabels   bool
	UseEqus     bool
	UseConsts   bool
	UseFor      bool // FOR/ROF blocks
	MaxForExp   int  // upper bound on block instances
	OutsideRef  bool // allow references to block labels from outside the block
	NestedLabel bool // allow a block label on a block whose body starts with a nested FOR
	Meta        bool
	ExactLines  int  // when > 0: exactly this many instruction lines (plain programs only)
	EndLabel    bool // allow a label on the END line
	ManyLabels  bool // one label per line
}

// Legacy switches off the strata that expose defects of gmars repaired late (repairs 29-35).  It is only set when a
// seeded change has to be tested on a commit that predates those repairs (tools/seedtest.sh), where every one of
// these strata would fire whatever the seeded change is.
var Legacy bool

// the pools contain names that differ from a name of another pool only by letter case (gap/Gap, step/Step/STEP,
// n/N, i/I, dist/DIST): symbols are case-sensitive, so these are different symbols; for the same reason the lower-case
// spellings of the predefined constants (coresize, maxlength, ...) are ordinary user names
var labelPool = []string{"lp", "loop1", "tgt", "_x", "Start", "bomb", "a1", "ptr_2", "X", "imp", "gate", "scan_lp", "q", "zz9", "_", "L0", "hit", "dst", "src", "boot", "Gap", "Step", "DIST", "I", "J", "Kk", "CNT", "mindistance", "maxprocesses", "Coresize"}
var equPool = []string{"step", "STEP", "gap", "dist", "k1", "kk", "offs", "N", "first", "dbl", "coresize", "maxlength"}
var ctrPool = []string{"i", "j", "n", "cnt", "ii"}

func pick(r Rand, xs []string) string { return xs[r.Intn(len(xs))] }

type genState struct {
	r         Rand
	o         GenOpts
	labels    []string // instruction labels available for reference
	equs      []string
	ctrs      []string // counters in scope
	countEqus []string // EQUs already written out (usable in FOR counts)
	labelEqus []string // EQUs whose text mentions a label (operands only)
}

// small literal biased to interesting values
func (g *genState) lit() Expr {
	m := g.o.Cfg.CoreSize
	var v int
	switch g.r.Intn(6) {
	case 0:
		v = 0
	case 1:
		v = g.r.Intn(4)
	case 2:
		v = g.r.Intn(m + 3)
	case 3:
		v = m/2 + g.r.Intn(3) - 1
		if v < 0 {
			v = 0
		}
	default:
		v = g.r.Intn(20)
	}
	z := 0
	if g.r.Intn(12) == 0 {
		z = 1 + g.r.Intn(2)
	}
	return Lit{V: v, Zeros: z}
}

func (g *genState) atom() Expr {
	var cands []func() Expr
	cands = append(cands, g.lit, g.lit)
	if len(g.labels) > 0 {
		cands = append(cands, func() Expr { return Ref{pick(g.r, g.labels)} }, func() Expr { return Ref{pick(g.r, g.labels)} })
	}
	if len(g.equs) > 0 {
		cands = append(cands, func() Expr { return Ref{pick(g.r, g.equs)} })
	}
	if len(g.ctrs) > 0 {
		cands = append(cands, func() Expr { return Ref{pick(g.r, g.ctrs)} }, func() Expr { return Ref{pick(g.r, g.ctrs)} })
	}
	if g.o.UseConsts && g.r.Intn(6) == 0 {
		return Ref{pick(g.r, []string{"CORESIZE", "MAXLENGTH", "MAXPROCESSES", "MINDISTANCE"})}
	}
	return cands[g.r.Intn(len(cands))]()
}

func (g *genState) expr(depth int) Expr {
	if depth <= 0 || g.r.Intn(3) == 0 {
		a := g.atom()
		if g.r.Intn(6) == 0 {
			return Un{"-", a}
		}
		return a
	}
	switch g.r.Intn(8) {
	case 0:
		return Par{g.expr(depth - 1)}
	case 1:
		return Un{"-", g.expr(depth - 1)}
	default:
		ops := "++--*"
		if g.r.Intn(10) == 0 {
			ops = "/%"
		}
		op := ops[g.r.Intn(len(ops))]
		l, rr := g.expr(depth-1), g.expr(depth-1)
		if op == '/' || op == '%' {
			// keep divisors non-zero literals in generated programs
			rr = Lit{V: 1 + g.r.Intn(7)}
		}
		return Bin{op, l, rr}
	}
}

var modes94 = []byte{'#', '$', '*', '@', '{', '<', '}', '>'}
var mods94 = []string{"a", "b", "ab", "ba", "f", "x", "i"}

func (g *genState) instr88() *Instr {
	for {
		opn := pick(g.r, Ops88)
		op := opByName[opn]
		four := []byte{'#', '$', '@', '<'}
		am := four[g.r.Intn(4)]
		bm := four[g.r.Intn(4)]
		ins := &Instr{Op: opn}
		ins.A = Operand{Mode: am, E: g.expr(2)}
		ins.B = &Operand{Mode: bm, E: g.expr(2)}
		// sometimes omit a mode (default $ or, for DAT, #) or the B operand
		if g.r.Intn(4) == 0 {
			ins.A.Mode = 0
		}
		if g.r.Intn(4) == 0 {
			ins.B.Mode = 0
		}
		if g.r.Intn(6) == 0 {
			ins.B = nil
		}
		def := mars.DIR
		if op == mars.DAT {
			def = mars.IMM
		}
		eff := func(c byte) mars.Mode {
			if c == 0 {
				return def
			}
			return modeByChar[c]
		}
		ea := eff(ins.A.Mode)
		eb := def
		if ins.B != nil {
			eb = eff(ins.B.Mode)
		}
		if _, ok := Legal88(op, ea, eb); ok {
			return ins
		}
	}
}

func (g *genState) instr94() *Instr {
	ins := &Instr{Op: pick(g.r, Ops94)}
	if g.r.Intn(2) == 0 {
		ins.Mod = pick(g.r, mods94)
	}
	ins.A = Operand{Mode: modes94[g.r.Intn(8)], E: g.expr(2)}
	ins.B = &Operand{Mode: modes94[g.r.Intn(8)], E: g.expr(2)}
	if g.r.Intn(3) == 0 {
		ins.A.Mode = 0
	}
	if g.r.Intn(3) == 0 {
		ins.B.Mode = 0
	}
	if g.r.Intn(6) == 0 {
		ins.B = nil
	}
	return ins
}

func (g *genState) instr() *Instr {
	if g.o.Cfg.Dialect == D88 {
		return g.instr88()
	}
	return g.instr94()
}

// GenProg draws an abstract program.
func GenProg(r Rand, o GenOpts) *Prog {
	g := &genState{r: r, o: o}
	p := &Prog{Cfg: o.Cfg}
	maxLines := o.MaxLines
	if maxLines > o.Cfg.Length {
		maxLines = o.Cfg.Length
	}
	if maxLines < 1 {
		maxLines = 1
	}
	n := 1 + r.Intn(maxLines)
	if o.ExactLines > 0 && !o.UseFor {
		n = o.ExactLines
	}

	// decide names up front so that forward references are possible
	var allLabels []string
	if o.ManyLabels && !o.UseFor {
		// one generated label per line (more than 256 of them when the program is long enough)
		for k := 0; k < n; k++ {
			allLabels = append(allLabels, fmt.Sprintf("m%d_", k))
		}
	} else if o.UseLabels {
		perm := r.Intn(len(labelPool))
		for k := 0; k < 1+r.Intn(5); k++ {
			allLabels = append(allLabels, labelPool[(perm+k*7)%len(labelPool)])
		}
		allLabels = dedupe(allLabels)
	}
	if o.UseEqus {
		perm := r.Intn(len(equPool))
		ne := 1 + r.Intn(3)
		if o.UseFor {
			ne = 1 + r.Intn(4)
		}
		for k := 0; k < ne; k++ {
			g.equs = append(g.equs, equPool[(perm+k*3)%len(equPool)])
		}
		g.equs = dedupe(g.equs)
	}

	if !o.UseFor {
		// plain program: labels may be referenced anywhere (backward and forward)
		g.labels = allLabels
		place := allLabels
		if o.EndLabel && len(allLabels) >= 2 && r.Intn(3) == 0 {
			// the last label goes on the END line: it denotes the address after the last instruction
			p.EndLabels = []string{allLabels[len(allLabels)-1]}
			place = allLabels[:len(allLabels)-1]
		}
		// every other label must be placed exactly once
		labelAt := map[int][]string{}
		for i, l := range place {
			k := r.Intn(n)
			if o.ManyLabels {
				k = i % n
			}
			labelAt[k] = append(labelAt[k], l)
		}
		for k := 0; k < n; k++ {
			ins := g.instr()
			ins.Labels = labelAt[k]
			p.Items = append(p.Items, ins)
		}
	} else {
		// EQUs of a FOR program are small pure numbers (they end up in counts).  They are written out
		// between the top-level items, later-indexed ones first, so that whenever one is visible to a
		// count all the EQUs it refers to are visible as well.
		var pending []Item
		for k := len(g.equs) - 1; k >= 0; k-- {
			var e Expr = Lit{V: r.Intn(6)}
			if r.Intn(3) == 0 {
				e = Bin{"+-*"[r.Intn(3)], Lit{V: 1 + r.Intn(3)}, Lit{V: r.Intn(3)}}
			}
			if k+1 < len(g.equs) && r.Intn(3) == 0 {
				e = Bin{'+', Ref{g.equs[k+1]}, Lit{V: r.Intn(2)}}
				if r.Intn(3) == 0 {
					e = Ref{g.equs[k+1]} // a pure alias: one name standing for another
				}
			}
			if k+2 < len(g.equs) && r.Intn(3) == 0 {
				// the same EQU twice, then another one (substitution order must not matter)
				a, b := Ref{g.equs[k+1]}, Ref{g.equs[k+2]}
				e = Bin{'%', Par{Bin{'+', Bin{"+*"[r.Intn(2)], a, a}, b}}, Lit{V: 5}}
			}
			pending = append(pending, &Equ{Name: g.equs[k], E: e})
		}
		g.genForProgram(p, allLabels, n, pending)
	}

	// EQU definitions: chains allowed (an EQU may use EQUs defined later in the list -> no cycles)
	if o.UseEqus && !o.UseFor {
		var defs []Item
		for k, name := range g.equs {
			sub := &genState{r: r, o: o, labels: g.labels}
			sub.equs = g.equs[k+1:] // may refer to later ones only: acyclic
			if o.UseFor {
				sub.labels = nil // EQUs used by FOR counts must be pure numbers
				sub.o.UseConsts = false
			}
			if o.UseFor {
				// small pure numbers: they end up in FOR counts
				var e Expr = Lit{V: r.Intn(6)}
				if r.Intn(3) == 0 {
					e = Bin{"+-*"[r.Intn(3)], Lit{V: 1 + r.Intn(3)}, Lit{V: r.Intn(3)}}
				}
				if len(sub.equs) > 0 && r.Intn(3) == 0 {
					e = Bin{'+', Ref{sub.equs[0]}, Lit{V: r.Intn(2)}}
				}
				defs = append(defs, &Equ{Name: name, E: e})
				continue
			}
			defs = append(defs, &Equ{Name: name, E: sub.expr(1)})
		}
		if o.UseFor {
			// counts can only see EQUs written before the block: put them first
			p.Items = append(defs, p.Items...)
		} else {
			for _, d := range defs {
				pos := r.Intn(len(p.Items) + 1)
				p.Items = append(p.Items[:pos], append([]Item{d}, p.Items[pos:]...)...)
			}
		}
	}

	// entry point: ORG or END argument, never both
	ninstr := countInstr(p)
	if ninstr > 0 {
		switch r.Intn(4) {
		case 0:
			// none
		case 1:
			p.EndArg = g.startExpr(r, ninstr)
		default:
			pos := r.Intn(len(p.Items) + 1)
			p.Items = append(p.Items[:pos], append([]Item{&Org{g.startExpr(r, ninstr)}}, p.Items[pos:]...)...)
		}
	}
	if o.Meta {
		if r.Intn(2) == 0 {
			p.Name = pick(r, []string{"Dwarf", "imp gate 2", "Mice", "x", "Scanner v0.3"})
		}
		if r.Intn(2) == 0 {
			p.Author = pick(r, []string{"A. K. Dewdney", "anon", "J Doe"})
		}
		if r.Intn(12) == 0 {
			// metadata longer than typical I/O buffers, with multi-byte characters at every alignment
			n := longLens[r.Intn(len(longLens)-2)]
			long := strings.Repeat("y", r.Intn(5)) + strings.Repeat("\u00e9\u6f22", n/5) + "z"
			switch r.Intn(3) {
			case 0:
				p.Name = long
			case 1:
				p.Author = long
			default:
				p.Strategy = append(p.Strategy, long)
			}
		}
		for k := r.Intn(3); k > 0; k-- {
			p.Strategy = append(p.Strategy, pick(r, []string{"bombs every 4th cell", "then jumps", "2 stage", "x"}))
		}
	}
	return p
}

func (g *genState) startExpr(r Rand, ninstr int) Expr {
	// a label (absolute in ORG/END), a literal in range, or label +- small
	if len(g.labels) > 0 && r.Intn(2) == 0 && !g.o.UseFor {
		return Ref{pick(r, g.labels)}
	}
	return Lit{V: r.Intn(ninstr)}
}

func countInstr(p *Prog) int {
	q, _, err := Unroll(p)
	if err != nil {
		return 0
	}
	n := 0
	for _, it := range q.Items {
		if _, ok := it.(*Instr); ok {
			n++
		}
	}
	return n
}

func dedupe(xs []string) []string {
	seen := map[string]bool{}
	var out []string
	for _, x := range xs {
		if !seen[x] {
			seen[x] = true
			out = append(out, x)
		}
	}
	return out
}

// genForProgram builds a program with FOR/ROF blocks: blocks in sequence and
// nested (depth <= 3), counts 0..6 as literals or expressions over EQUs,
// counters inside operand arithmetic of inner and outer bodies, optional block
// labels referenced from inside (and, with OutsideRef, from outside) the block.
// Labels are only put on top-level instructions and in front of blocks (never
// inside a body: they would be defined once per iteration).
func (g *genState) genForProgram(p *Prog, allLabels []string, n int, pending []Item) {
	r := g.r
	budget := g.o.MaxForExp
	if budget < 1 {
		budget = 1
	}
	used := 0
	// labels that exist at top level: decided while building; references only to labels already placed (backward) or block labels
	topLabels := append([]string{}, allLabels...)
	var placed []string
	takeLabel := func() (string, bool) {
		if len(topLabels) == 0 {
			return "", false
		}
		l := topLabels[0]
		topLabels = topLabels[1:]
		return l, true
	}
	nonUnit := 0             // number of enclosing blocks (the current one included) whose count is not the literal 1
	var innerPlaced []string // labels defined inside bodies that are copied exactly once
	var genBlock func(depth int, mult int) *For
	genBlock = func(depth, mult int) *For {
		f := &For{}
		ctr := ctrPool[(depth+r.Intn(2))%len(ctrPool)]
		for _, c := range g.ctrs {
			if c == ctr {
				ctr = fmt.Sprintf("c%d", depth)
			}
		}
		if r.Intn(8) != 0 {
			f.Counter = ctr
		}
		cnt := r.Intn(5)
		if r.Intn(10) == 0 {
			cnt = 5 + r.Intn(2)
		}
		if len(g.countEqus) > 0 && r.Intn(3) == 0 {
			// an expression over EQUs written before this block; Unroll evaluates it
			q := Ref{pick(r, g.countEqus)}
			switch r.Intn(7) {
			case 0, 1:
				f.Count = Bin{'%', Par{Bin{'+', q, Lit{V: cnt}}}, Lit{V: 4}}
			case 2, 3:
				f.Count = q
			case 4:
				// a literal first, then an operator that binds tighter than what the EQU's text may contain
				// (EQU values are spliced in as text: 2*N with N equ 1+1 is 2*1+1)
				f.Count = Bin{'*', Lit{V: 1 + r.Intn(2)}, q}
			case 5:
				f.Count = Bin{'-', Lit{V: 3 + r.Intn(4)}, q}
			default:
				f.Count = Bin{'+', Bin{'%', q, Lit{V: 3}}, Lit{V: r.Intn(2)}}
			}
		} else if r.Intn(12) == 0 && !Legacy {
			// the predefined constants in a count (small values by construction: x % k, x / x)
			cn := Ref{pick(r, []string{"CORESIZE", "MAXLENGTH", "MAXPROCESSES", "MINDISTANCE"})}
			switch r.Intn(3) {
			case 0:
				f.Count = Bin{'%', cn, Lit{V: 2 + r.Intn(3)}}
			case 1:
				f.Count = Bin{'+', Bin{'/', cn, Par{Bin{'+', cn, Lit{V: 1}}}}, Lit{V: cnt}}
			default:
				f.Count = Bin{'-', Bin{'+', cn, Lit{V: cnt}}, cn}
			}
		} else if depth > 1 && len(g.ctrs) > 0 && r.Intn(3) == 0 {
			// the count of an inner block depends on the counter of an enclosing one
			outer := Ref{g.ctrs[len(g.ctrs)-1]}
			switch r.Intn(3) {
			case 0:
				f.Count = Bin{'+', outer, Lit{V: r.Intn(2)}}
			case 1:
				f.Count = outer
			default:
				f.Count = Bin{'-', Lit{V: 3}, outer}
			}
		} else {
			f.Count = Lit{V: cnt}
			if cnt == 0 && r.Intn(2) == 0 {
				// a block that is never expanded fences off anything, an END line included
				f.Dead = [][]string{{"end"}, {" END 2"}, {"end", "dat 1, 2"}, {"mov 0, 1", " end"}, {"dat undefined_in_dead_code"},
					{"----------------------------", "2 imps and a stone, disabled for now", "(see the notes)"}, {"1, 2, 3", "#$@ !!", "mov mov mov"},
					{";assert 0", "dat 0"}, {";assert CORESIZE == 1", ";assert undefined_in_dead_code"}, {"x equ 1/0", "org 99999"}}[r.Intn(10)]
				if Legacy {
					f.Dead = [][]string{{"end"}, {" END 2"}, {"end", "dat 1, 2"}, {"mov 0, 1", " end"}, {"dat undefined_in_dead_code"},
						{"----------------------------", "2 imps and a stone, disabled for now", "(see the notes)"}, {"1, 2, 3", "mov mov mov"}}[r.Intn(7)]
				}
				if r.Intn(3) == 0 {
					// a lot of old code fenced off (more lines than a small core has cells)
					for k, n := 0, 5+r.Intn(60); k < n; k++ {
						f.Dead = append(f.Dead, "mov 0, 1")
					}
				}
			}
		}
		saved := g.ctrs
		if f.Counter != "" {
			g.ctrs = append(append([]string{}, g.ctrs...), f.Counter)
		}
		unit := false
		if l, ok := f.Count.(Lit); ok && l.V == 1 {
			unit = true
		}
		if !unit {
			nonUnit++
		}
		lines := 1 + r.Intn(3)
		for k := 0; k < lines; k++ {
			if depth < 3 && r.Intn(4) == 0 && used < budget {
				used += max(1, cnt) * mult
				f.Body = append(f.Body, genBlock(depth+1, mult*max(1, cnt)))
			} else {
				ins := g.instr()
				if nonUnit == 0 && r.Intn(2) == 0 && !Legacy {
					// a body that is copied exactly once may define labels of its own: after the expansion they are
					// ordinary labels (on the instruction, on a line of their own, with a colon - the renderer decides)
					if l, ok := takeLabel(); ok {
						ins.Labels = []string{l}
						innerPlaced = append(innerPlaced, l)
					}
				}
				f.Body = append(f.Body, ins)
			}
		}
		if !unit {
			nonUnit--
		}
		g.ctrs = saved
		return f
	}
	emitDef := func() {
		if len(pending) > 0 {
			d := pending[0].(*Equ)
			pending = pending[1:]
			p.Items = append(p.Items, d)
			g.countEqus = append(g.countEqus, d.Name)
		}
	}
	// most definitions come first, some between the items, the rest at the end (forward use in operands)
	for len(pending) > 0 && r.Intn(3) != 0 {
		emitDef()
	}
	if g.o.NestedLabel && len(topLabels) > 0 {
		// a labelled block whose body consists of (or starts with) a nested block that refers to the label
		l, _ := takeLabel()
		inner := &For{Counter: "jn", Count: Lit{V: 1 + r.Intn(3)}, Body: []Item{&Instr{Op: "dat", A: Operand{Mode: '#', E: Ref{l}}, B: &Operand{Mode: '#', E: Ref{"jn"}}}}}
		outer := &For{Labels: []string{l}, Counter: "io", Count: Lit{V: 1 + r.Intn(2)*r.Intn(3)}, Body: []Item{inner}}
		if r.Intn(2) == 0 {
			outer.Body = append(outer.Body, &Instr{Op: "dat", A: Operand{Mode: '#', E: Ref{"io"}}, B: &Operand{Mode: '#', E: Ref{l}}})
		}
		p.Items = append(p.Items, outer)
		used += 4
	}
	for k := 0; k < n; k++ {
		if r.Intn(3) == 0 {
			emitDef()
		}
		if used < budget && r.Intn(3) == 0 {
			used++
			f := genBlock(1, 1)
			// block label: only when the body starts with an instruction
			_, firstIsInstr := f.Body[0].(*Instr)
			inner, firstIsFor := f.Body[0].(*For)
			if firstIsFor && g.o.NestedLabel && f.Counter != "" && inner.Counter != "" && len(topLabels) > 0 {
				// label on a block whose first emitted instruction comes from a nested block, referenced from there
				l, _ := takeLabel()
				f.Labels = []string{l}
				if ins, ok := inner.Body[len(inner.Body)-1].(*Instr); ok {
					ins.A.E = Ref{l}
				}
			} else if firstIsInstr && r.Intn(3) == 0 && f.Counter != "" {
				if l, ok := takeLabel(); ok {
					f.Labels = []string{l}
					// references from inside the block
					if first, ok := f.Body[len(f.Body)-1].(*Instr); ok && r.Intn(2) == 0 {
						first.A.E = Bin{'+', Ref{l}, Lit{V: r.Intn(3)}}
					}
					if g.o.OutsideRef {
						placed = append(placed, l)
					}
				}
			}
			p.Items = append(p.Items, f)
			// labels defined inside once-copied bodies may be referenced by what follows
			placed = append(placed, innerPlaced...)
			innerPlaced = nil
		} else {
			g.labels = placed
			ins := g.instr()
			if r.Intn(3) == 0 {
				if l, ok := takeLabel(); ok {
					ins.Labels = []string{l}
					placed = append(placed, l)
				}
			}
			p.Items = append(p.Items, ins)
			if len(ins.Labels) > 0 && r.Intn(3) == 0 {
				// an EQU whose text mentions an instruction label (usable in operands, never in FOR counts)
				name := fmt.Sprintf("le%d", len(g.labelEqus))
				p.Items = append(p.Items, &Equ{Name: name, E: Bin{"+-"[r.Intn(2)], Ref{ins.Labels[0]}, Lit{V: r.Intn(4)}}})
				g.labelEqus = append(g.labelEqus, name)
				g.equs = append(g.equs, name)
			}
		}
	}
	for len(pending) > 0 {
		emitDef()
	}
	g.labels = placed
}
