package asm

import (
	"fmt"
	"strings"
)

// Style is one way of writing a program down. Every field is layout only:
// by the property no choice here may change what the program assembles to.
type Style struct {
	R               Rand
	Case            int               // 0 lower, 1 upper, 2 random per letter
	Spacing         int               // 0 minimal, 1 single blanks, 2 random blanks/tabs
	ColonPct        int               // chance (percent) of a colon after a label
	OwnLinePct      int               // chance that an instruction's labels go on their own line(s)
	BlankPct        int               // chance of a blank line before an item
	CommentPct      int               // chance of a comment line before an item
	TrailPct        int               // chance of a trailing comment
	ExplicitModePct int               // chance of writing the default mode character explicitly (never for '88 DAT)
	Rename          map[string]string // alpha-renaming of labels, EQU names and counters
	FloatEqus       bool              // move unpinned EQU lines to random top-level places
	NoFinalNewline  bool
	WithEnd         bool   // write an END line even without argument
	AfterEnd        string // text after the END line (ignored by the standard)
	Header          bool   // ;redcode first line
	LongCommentPct  int    // chance that a comment is 4090..70000 bytes long
	// ScatterDirectives: metadata and ;assert lines are not all written at the top: some follow a label that stands on
	// a line of its own (between the label and its instruction), some stand between top-level items
	ScatterDirectives bool
}

func (s *Style) pct(p int) bool { return p > 0 && s.R.Intn(100) < p }

func (s *Style) kw(w string) string {
	switch s.Case {
	case 0:
		return strings.ToLower(w)
	case 1:
		return strings.ToUpper(w)
	}
	b := []byte(strings.ToLower(w))
	for i := range b {
		if s.R.Intn(2) == 0 && b[i] >= 'a' && b[i] <= 'z' {
			b[i] -= 32
		}
	}
	return string(b)
}

// gap is mandatory white space
func (s *Style) gap() string {
	switch s.Spacing {
	case 2:
		n := 1 + s.R.Intn(3)
		var b strings.Builder
		for i := 0; i < n; i++ {
			switch x := s.R.Intn(40); {
			case x == 0:
				b.WriteByte('\f') // form feed and vertical tab are white space as well
			case x == 1:
				b.WriteByte('\v')
			case x < 11:
				b.WriteByte('\t')
			default:
				b.WriteByte(' ')
			}
		}
		return b.String()
	}
	return " "
}

// opt is optional white space
func (s *Style) opt() string {
	switch s.Spacing {
	case 0:
		return ""
	case 1:
		return " "
	}
	if s.R.Intn(2) == 0 {
		return ""
	}
	return s.gap()
}

func (s *Style) name(n string) string {
	if s.Rename != nil {
		if r, ok := s.Rename[n]; ok {
			return r
		}
	}
	return n
}

func (s *Style) expr(e Expr) string {
	toks := Tokens(e)
	for i := range toks {
		if toks[i].Kind == TIdent {
			toks[i].Text = s.name(toks[i].Text)
		}
	}
	return Text(toks, func(i int) string { return s.opt() })
}

var commentWords = []string{"\ufffd replaced", "\u00e9t\u00e9 \u6f22\u5b57 \U0001f600", "bomb", "scan", "loop", "ptr", "step", "gate", "clear", "imp", "launch", "decoy", "x1", "todo 2+2", "a,b", "(see below)"}

// remarks that may only stand behind code (as lines of their own they would be directives)
var trailOnly = []string{";assert 0", ";assertion: never fails", ";assert CORESIZE-CORESIZE", ";assert 1/0", ";redcode", ";name not a name", ";author nobody", ";strategy none", ";assert"}

func (s *Style) comment() string {
	if s.LongCommentPct > 0 && s.R.Intn(100) < s.LongCommentPct {
		// a comment longer than typical I/O buffers, ASCII or multi-byte
		n := longLens[s.R.Intn(len(longLens))]
		if s.R.Intn(2) == 0 {
			return ";" + strings.Repeat("=", n)
		}
		return ";" + strings.Repeat("x", s.R.Intn(4)) + strings.Repeat("\u00e9", n/2)
	}
	return ";" + s.opt() + commentWords[s.R.Intn(len(commentWords))] + fmt.Sprint(s.R.Intn(100))
}

// assertLine writes an ;assert line; the blank after the keyword is optional when the condition starts with a
// parenthesis or a sign
func assertLine(s *Style, a Expr) string {
	e := s.expr(a)
	if e != "" && (e[0] == '(' || e[0] == '-' || e[0] == '+') && s.R.Intn(3) == 0 {
		return ";assert" + e
	}
	return ";assert " + e
}

// Render writes the program as Redcode source text.
func Render(p *Prog, s *Style) string {
	var lines []string
	emit := func(l string) { lines = append(lines, l) }
	var queue []string // directive lines still to be written (ScatterDirectives)
	depth := 0         // nesting depth of the FOR body being rendered (directives are only written at depth 0)
	popDirective := func() {
		if len(queue) > 0 && depth == 0 && s.R.Intn(2) == 0 {
			emit(queue[0])
			queue = queue[1:]
		}
	}
	filler := func() {
		if s.pct(s.BlankPct) {
			emit(strings.Repeat(" ", s.R.Intn(3)))
		}
		if s.pct(s.CommentPct) {
			emit(s.comment())
		}
	}
	trail := func(l string) string {
		if s.pct(s.TrailPct) {
			if s.R.Intn(8) == 0 {
				// a remark behind code is a remark whatever it says: only a comment LINE starting with ;assert is an assertion
				return l + s.opt() + trailOnly[s.R.Intn(len(trailOnly))]
			}
			return l + s.opt() + s.comment()
		}
		return l
	}
	label := func(l string) string {
		l = s.name(l)
		if s.pct(s.ColonPct) {
			l += ":"
		}
		return l
	}
	dialect88 := p.Cfg.Dialect == D88
	operand := func(o Operand, isDat bool) string {
		mode := ""
		if o.Mode != 0 {
			mode = string(o.Mode)
		} else if !(dialect88 && isDat) && s.pct(s.ExplicitModePct) {
			mode = "$"
		}
		if mode != "" {
			return mode + s.opt() + s.expr(o.E)
		}
		return s.expr(o.E)
	}

	// top-level placement of floating EQU lines
	items := p.Items
	if s.FloatEqus {
		var fixed, floating []Item
		for _, it := range items {
			if e, ok := it.(*Equ); ok && !pinned(p, e.Name) {
				floating = append(floating, e)
			} else {
				fixed = append(fixed, it)
			}
		}
		for _, e := range floating {
			pos := s.R.Intn(len(fixed) + 1)
			fixed = append(fixed[:pos], append([]Item{e}, fixed[pos:]...)...)
		}
		items = fixed
	}

	var renderItems func(items []Item, indent string)
	renderItems = func(items []Item, indent string) {
		for idx := 0; idx < len(items); idx++ {
			it := items[idx]
			filler()
			if s.R != nil && len(queue) > 0 && depth == 0 && s.R.Intn(3) == 0 {
				popDirective()
			}
			switch x := it.(type) {
			case *Equ:
				names := s.name(x.Name)
				for idx+1 < len(items) {
					// several names in front of one EQU: every one of them is defined
					nx, ok := items[idx+1].(*Equ)
					if !ok || !nx.JoinPrev || fmt.Sprint(Tokens(nx.E)) != fmt.Sprint(Tokens(x.E)) {
						break
					}
					names += s.gap() + s.name(nx.Name)
					idx++
				}
				emit(trail(indent + names + s.gap() + s.kw("equ") + s.gap() + s.expr(x.E)))
			case *Org:
				emit(trail(indent + s.opt() + s.kw("org") + s.gap() + s.expr(x.E)))
			case *For:
				head := indent
				for _, l := range x.Labels {
					head += label(l) + s.gap()
				}
				if x.Counter != "" {
					head += s.name(x.Counter) + s.gap()
				}
				emit(trail(head + s.kw("for") + s.gap() + s.expr(x.Count)))
				for _, a := range x.Asserts {
					emit(indent + assertLine(s, a))
				}
				depth++
				if len(x.Dead) > 0 && s.R.Intn(2) == 0 {
					for _, l := range x.Dead {
						emit(indent + l)
					}
					renderItems(x.Body, indent+s.opt())
				} else {
					renderItems(x.Body, indent+s.opt())
					for _, l := range x.Dead {
						emit(indent + l)
					}
				}
				depth--
				emit(trail(indent + s.opt() + s.kw("rof")))
			case *Instr:
				line := indent
				if len(x.Labels) > 0 && s.pct(s.OwnLinePct) {
					for _, l := range x.Labels {
						emit(indent + label(l))
						popDirective()
						if s.pct(s.BlankPct) {
							emit("")
						}
						if s.pct(s.CommentPct) {
							emit(s.comment())
						}
					}
					line += s.opt()
				} else if len(x.Labels) > 0 {
					for _, l := range x.Labels {
						line += label(l) + s.gap()
					}
				} else {
					line += s.opt()
				}
				op := s.kw(x.Op)
				if x.Mod != "" {
					op += "." + s.kw(x.Mod)
				}
				line += op + s.gap() + operand(x.A, x.Op == "dat")
				if x.B != nil {
					line += s.opt() + "," + s.opt() + operand(*x.B, x.Op == "dat")
				}
				emit(trail(line))
			}
		}
	}

	if s.Header {
		emit(";redcode")
	}
	// metadata and assert lines go to random places in front of items; keep it simple: at the top, in random order
	var meta []string
	if p.Name != "" {
		meta = append(meta, ";name "+p.Name)
	}
	if p.Author != "" {
		meta = append(meta, ";author "+p.Author)
	}
	for _, st := range p.Strategy {
		meta = append(meta, ";strategy "+st)
	}
	// strategy lines keep their order; name/author may move after them
	if len(meta) > 1 && s.R.Intn(2) == 0 && p.Name != "" {
		meta = append(meta[1:], meta[0])
	}
	for _, a := range p.Asserts {
		meta = append(meta, assertLine(s, a))
	}
	if s.ScatterDirectives && !Legacy {
		queue = meta
	} else {
		for _, l := range meta {
			emit(l)
		}
	}
	renderItems(items, "")
	for _, l := range queue {
		emit(l)
	}
	queue = nil
	endLabels := ""
	for _, l := range p.EndLabels {
		endLabels += label(l) + s.gap()
	}
	if p.EndArg != nil {
		filler()
		emit(trail(endLabels + s.opt() + s.kw("end") + s.gap() + s.expr(p.EndArg)))
	} else if s.WithEnd || endLabels != "" {
		filler()
		emit(trail(endLabels + s.opt() + s.kw("end")))
	}
	text := strings.Join(lines, "\n")
	if (p.EndArg != nil || s.WithEnd || len(p.EndLabels) > 0) && s.AfterEnd != "" {
		text += "\n" + s.AfterEnd
	}
	if !s.NoFinalNewline {
		text += "\n"
	}
	return text
}

// pinned reports whether an EQU must stay where it is: it is used
// (transitively) by a FOR count, which only sees EQUs written before the block.
func pinned(p *Prog, name string) bool {
	used := map[string]bool{}
	var mark func(e Expr)
	equs := map[string]Expr{}
	var collect func(items []Item)
	collect = func(items []Item) {
		for _, it := range items {
			switch x := it.(type) {
			case *Equ:
				equs[x.Name] = x.E
			case *For:
				collect(x.Body)
			}
		}
	}
	collect(p.Items)
	mark = func(e Expr) {
		switch x := e.(type) {
		case Ref:
			if !used[x.Name] {
				used[x.Name] = true
				if d, ok := equs[x.Name]; ok {
					mark(d)
				}
			}
		case Un:
			mark(x.X)
		case Bin:
			mark(x.L)
			mark(x.R)
		case Par:
			mark(x.X)
		}
	}
	var walk func(items []Item)
	walk = func(items []Item) {
		for _, it := range items {
			if f, ok := it.(*For); ok {
				mark(f.Count)
				walk(f.Body)
			}
		}
	}
	walk(p.Items)
	return used[name]
}
