package asm

import (
	"fmt"
	"strconv"
	"strings"
	"unicode"

	"verif/ref/mars"
)

// ---------------------------------------------------------------------------
// canonical load-file printer (the layout of the repository's test_files/*.rc
// for '94: ORG n / OP.MOD m a, m b / END; for '88: OP m a, m b / END n)

// Spell selects how a field value v in [0,M) is written.
//
//	0 unsigned, 1 signed (v > M/2 printed as v-M), 2 a congruent spelling >= M or <= -M, 4 within 32 bits where possible
func spellField(v, m int, spell int, r Rand) string {
	if v == 0 && spell != 0 && r.Intn(4) == 0 {
		return []string{"-0", "-00", "00", "000"}[r.Intn(4)] // zero has many spellings
	}
	switch spell {
	case 1:
		if v > m/2 {
			return strconv.Itoa(v - m)
		}
	case 4:
		// the spelling that stays within 32 bits whenever one exists: values from 2^31 on are written as v-M
		if v >= 1<<31 {
			return strconv.Itoa(v - m)
		}
	case 2:
		k := 1 + r.Intn(3)
		if r.Intn(2) == 0 {
			return strconv.Itoa(v + k*m)
		}
		return strconv.Itoa(v - k*m)
	}
	return strconv.Itoa(v)
}

// PrintLoadFile returns the canonical lines (no line terminators).
// spell: 0 unsigned, 1 signed, 2 congruent, 3 mixed per field.
func PrintLoadFile(code []mars.Insn, start int, d Dialect, m int, spell int, r Rand) []string {
	var lines []string
	sp := func() int {
		if spell == 3 {
			return r.Intn(3)
		}
		return spell
	}
	if d == D94 {
		lines = append(lines, fmt.Sprintf("       ORG      %d", start))
	}
	for _, c := range code {
		op := mars.OpNames[c.Op]
		if d == D94 {
			op += "." + mars.ModNames[c.Mod]
		}
		lines = append(lines, fmt.Sprintf("       %-6s %c %5s, %c %5s     ", op, mars.ModeChars[c.AM], spellField(c.A, m, sp(), r), mars.ModeChars[c.BM], spellField(c.B, m, sp(), r)))
	}
	if d == D94 {
		lines = append(lines, "       END")
	} else {
		lines = append(lines, fmt.Sprintf("       END      %d", start))
	}
	return lines
}

// Perturbation bits (layout only).
const (
	PCase = 1 << iota
	PBlanks
	PCRLF
	PCommentLines
	PBlankLines
	PTrailing
	PMeta
	PNoFinalNewline
	PLastLineComment // the file ends with a comment line (combined with PNoFinalNewline: unterminated comment)
	PNoEnd           // drop a plain END line ('94 only: END carries no information there)
	PLongLines       // comment lines and trailing blanks/comments of 4090..70000 bytes (beyond typical I/O buffer sizes)
)

// NumPerturbations is the number of perturbation bits.
const NumPerturbations = 11

var longLens = []int{4090, 4095, 4096, 4097, 4100, 8191, 8192, 8193, 65536, 70000}

// metadata comment blocks: ordinary ones, bare keywords, repeated and empty strategy lines, odd spacing and case
var metaBlocks = [][]string{
	{";name Some Name", ";author An Author", ";strategy does things"},
	{";name Some Name", ";author An Author", ";strategy does things"},
	{";name", ";author", ";strategy"},
	{";strategy one", ";strategy two", ";strategy", ";name N", ";strategy three"},
	{";name  spaced  name ", ";author\tTabbed", ";strategy ", ";strategy   "},
	{";NAME Upper", ";Author Mixed", ";STRATEGY shout", ";name second name"},
	{";strategy", ";strategy"},
	{";name \"", ";author \"", ";strategy \""},
	{";name \"quoted name\"", ";author 'single'", ";strategy \"\"", ";name \"\"\""},
	{";name \\", ";author \t", ";strategy ;", ";name ;name"},
}

// comment lines between the instructions: plain ones, metadata keywords in the middle of the file, multi-byte text
var midComments = []string{"; a comment, with 1 comma", "; a comment, with 1 comma", "; a comment, with 1 comma", ";redcode", ";redcode-94 verbose", ";name another name",
	";author again", ";strategy goes on", ";assert 1", "; \ufffd replacement character, \u00e9\u6f22\U0001f600", ";;;", "; mov.i $ 0, $ 1", "; control characters in a comment: \x1a \x01 \x7f \x0b", ";\x1a", "; tab\tand more ; ; ;"}

var lastComments = []string{"; the end", "; the end", ";", ";strategy", ";name", ";author", ";strategy ", ";assert 1"}

var PerturbNames = []string{"case", "blanks", "crlf", "comment-lines", "blank-lines", "trailing-comments", "metadata", "no-final-newline", "last-line-comment", "no-end", "long-lines"}

func PerturbSetName(set int) string {
	var ns []string
	for i, n := range PerturbNames {
		if set&(1<<i) != 0 {
			ns = append(ns, n)
		}
	}
	if len(ns) == 0 {
		return "canonical"
	}
	return strings.Join(ns, "+")
}

// Perturb applies the layout perturbations in set to canonical lines.
func Perturb(lines []string, set int, d Dialect, r Rand) string {
	var out []string
	eol := "\n"
	if set&PCRLF != 0 {
		eol = "\r\n"
	}
	if set&PMeta != 0 {
		out = append(out, ";redcode")
		out = append(out, metaBlocks[r.Intn(len(metaBlocks))]...)
	}
	for i, l := range lines {
		isEnd := strings.HasPrefix(strings.TrimSpace(l), "END")
		if isEnd && set&PNoEnd != 0 && d == D94 && i == len(lines)-1 {
			continue
		}
		if set&PCase != 0 {
			switch r.Intn(3) {
			case 0:
				l = strings.ToLower(l)
			case 1:
				b := []byte(l)
				for k := range b {
					if r.Intn(2) == 0 && b[k] >= 'A' && b[k] <= 'Z' {
						b[k] += 32
					}
				}
				l = string(b)
			}
		}
		if set&PBlanks != 0 {
			// extra blanks/tabs at field boundaries (never inside a token)
			var b strings.Builder
			for k := 0; k < len(l); k++ {
				b.WriteByte(l[k])
				if (l[k] == ' ' || l[k] == ',') && r.Intn(3) == 0 {
					switch x := r.Intn(40); {
					case x == 0:
						b.WriteByte('\v') // vertical tab and form feed are blanks too
					case x == 1:
						b.WriteByte('\f')
					case x < 20:
						b.WriteByte('\t')
					default:
						b.WriteString("  ")
					}
				}
			}
			l = b.String()
			if r.Intn(3) == 0 {
				l = "\t" + l
			}
		}
		if set&PBlankLines != 0 && r.Intn(3) == 0 {
			out = append(out, strings.Repeat(" ", r.Intn(3)))
		}
		if set&PCommentLines != 0 && r.Intn(3) == 0 {
			out = append(out, midComments[r.Intn(len(midComments))])
		}
		if set&PTrailing != 0 && r.Intn(2) == 0 {
			l += " ; trailing " + strconv.Itoa(i)
			switch r.Intn(16) {
			case 0, 1:
				l += " \ufffd \u00e9\u6f22" // a genuine U+FFFD and other multi-byte text
			case 2:
				l += " \x1a\x01 ctrl" // control characters (a DOS end-of-file mark among them)
			}
		}
		if set&PLongLines != 0 && r.Intn(3) == 0 {
			n := longLens[r.Intn(len(longLens))]
			switch r.Intn(3) {
			case 0:
				out = append(out, ";"+strings.Repeat("-", n))
			case 1:
				l += strings.Repeat(" ", n)
			default:
				l += " ;" + strings.Repeat("\u00e9x", n/3)
			}
		}
		out = append(out, l)
	}
	if set&PLastLineComment != 0 {
		out = append(out, lastComments[r.Intn(len(lastComments))])
	}
	text := strings.Join(out, eol)
	if set&PNoFinalNewline == 0 {
		text += eol
	}
	return text
}

// ---------------------------------------------------------------------------
// line accountant for load files: purely structural (first field, nothing decoded)

type Account struct {
	InstrShaped int  // non-blank, non-comment, non-directive lines before the end marker
	Directives  int  // ORG lines before the end marker
	Blank       int  // blank and comment-only lines before the end marker
	HasEnd      bool // an END line was seen
	Lines       int
}

func AccountLoadFile(text string) Account {
	var a Account
	// lines are terminated by \n; a last line without terminator is a line too
	// (a byte-order mark in front of the file is not content: a reader may or may not tolerate it)
	rest := strings.TrimPrefix(text, "\ufeff")
	for len(rest) > 0 {
		var line string
		if i := strings.IndexByte(rest, '\n'); i >= 0 {
			line, rest = rest[:i], rest[i+1:]
		} else {
			line, rest = rest, ""
		}
		a.Lines++
		if i := strings.IndexByte(line, ';'); i >= 0 {
			line = line[:i]
		}
		// blanks are whatever Unicode calls white space (a reader that treats U+2028 or U+00A0... as a
		// blank skips nothing); commas separate as well
		fields := strings.FieldsFunc(line, func(r rune) bool { return r == ',' || unicode.IsSpace(r) })
		if len(fields) == 0 {
			if strings.TrimFunc(line, unicode.IsSpace) != "" && !Legacy {
				// a line of commas only is not blank: it must make the read fail (it holds no instruction)
				a.InstrShaped += 1 << 20
				continue
			}
			a.Blank++
			continue
		}
		switch strings.ToLower(fields[0]) {
		case "end":
			a.HasEnd = true
			return a
		case "org":
			a.Directives++
		default:
			a.InstrShaped++
		}
	}
	return a
}

// ---------------------------------------------------------------------------
// pMARS listing reader (START label, ORG START / END START, signed fields,
// no modifiers in '88 mode)

// ReadListing reads a load listing as pMARS prints it.
func ReadListing(text string, d Dialect, m int) ([]mars.Insn, int, error) {
	var code []mars.Insn
	start := -1
	orgSeen, endSeen := false, false
	for ln, raw := range strings.Split(text, "\n") {
		line := raw
		if i := strings.IndexByte(line, ';'); i >= 0 {
			line = line[:i]
		}
		line = strings.ReplaceAll(line, ",", " ")
		f := strings.Fields(line)
		if len(f) == 0 {
			continue
		}
		if endSeen {
			return nil, 0, fmt.Errorf("line %d: text after END", ln+1)
		}
		isStart := false
		if f[0] == "START" {
			isStart = true
			f = f[1:]
			if len(f) == 0 {
				return nil, 0, fmt.Errorf("line %d: START label alone", ln+1)
			}
		}
		switch strings.ToUpper(f[0]) {
		case "ORG":
			if len(f) != 2 || f[1] != "START" || isStart {
				return nil, 0, fmt.Errorf("line %d: expected 'ORG START'", ln+1)
			}
			orgSeen = true
			continue
		case "END":
			if isStart {
				return nil, 0, fmt.Errorf("line %d: START on END", ln+1)
			}
			if len(f) == 2 && f[1] == "START" {
				if orgSeen {
					return nil, 0, fmt.Errorf("line %d: both ORG START and END START", ln+1)
				}
				orgSeen = true
			} else if len(f) != 1 {
				return nil, 0, fmt.Errorf("line %d: bad END", ln+1)
			}
			endSeen = true
			continue
		}
		if len(f) != 5 {
			return nil, 0, fmt.Errorf("line %d: expected 'OP m a, m b', got %q", ln+1, raw)
		}
		var ins mars.Insn
		opf := f[0]
		if d == D94 {
			parts := strings.Split(opf, ".")
			if len(parts) != 2 {
				return nil, 0, fmt.Errorf("line %d: '94 listing needs OP.MOD, got %q", ln+1, opf)
			}
			op, ok1 := opByName[strings.ToLower(parts[0])]
			md, ok2 := modByName[strings.ToLower(parts[1])]
			if !ok1 || !ok2 || parts[0] != strings.ToUpper(parts[0]) || parts[1] != strings.ToUpper(parts[1]) {
				return nil, 0, fmt.Errorf("line %d: unknown op %q", ln+1, opf)
			}
			ins.Op, ins.Mod = op, md
		} else {
			if strings.Contains(opf, ".") {
				return nil, 0, fmt.Errorf("line %d: modifier in an '88 listing: %q", ln+1, opf)
			}
			op, ok := opByName[strings.ToLower(opf)]
			if !ok || opf != strings.ToUpper(opf) {
				return nil, 0, fmt.Errorf("line %d: unknown op %q", ln+1, opf)
			}
			ins.Op = op
		}
		if len(f[1]) != 1 || len(f[3]) != 1 {
			return nil, 0, fmt.Errorf("line %d: bad mode", ln+1)
		}
		am, ok1 := modeByChar[f[1][0]]
		bm, ok2 := modeByChar[f[3][0]]
		if !ok1 || !ok2 {
			return nil, 0, fmt.Errorf("line %d: bad mode", ln+1)
		}
		ins.AM, ins.BM = am, bm
		a, err1 := strconv.Atoi(f[2])
		b, err2 := strconv.Atoi(f[4])
		if err1 != nil || err2 != nil {
			return nil, 0, fmt.Errorf("line %d: bad number", ln+1)
		}
		// pMARS prints fields normalised into (-M/2, M/2]
		if a <= -m || a >= m || b <= -m || b >= m {
			return nil, 0, fmt.Errorf("line %d: field outside (-M,M)", ln+1)
		}
		ins.A, ins.B = ((a%m)+m)%m, ((b%m)+m)%m
		if d == D88 {
			md, legal := Legal88(ins.Op, ins.AM, ins.BM)
			if !legal {
				return nil, 0, fmt.Errorf("line %d: not a legal '88 instruction", ln+1)
			}
			ins.Mod = md
		}
		if isStart {
			if start >= 0 {
				return nil, 0, fmt.Errorf("line %d: second START label", ln+1)
			}
			start = len(code)
		}
		code = append(code, ins)
	}
	if len(code) == 0 {
		return code, 0, nil
	}
	if start < 0 {
		return nil, 0, fmt.Errorf("no START label")
	}
	if !orgSeen {
		return nil, 0, fmt.Errorf("no ORG START / END START")
	}
	return code, start, nil
}
