package asm

import (
	"errors"
	"fmt"
	"math/big"
	"strings"

	"verif/ref/mars"
)

type Dialect uint8

const (
	D94 Dialect = iota
	D88
)

// Config is the part of the simulator configuration the assembler sees.
type Config struct {
	Dialect   Dialect
	CoreSize  int
	Length    int
	Processes int
	Distance  int
}

// Operand of an instruction line. Mode 0 means "not written".
type Operand struct {
	Mode byte // one of # $ * @ { < } > or 0
	E    Expr
}

// Item is one element of a program.
type Item interface{ isItem() }

type Instr struct {
	Labels []string
	Op     string // lower-case mnemonic
	Mod    string // "" = not written
	A      Operand
	B      *Operand // nil = lone operand
}

type Equ struct {
	Name string
	E    Expr
	// JoinPrev: when this definition directly follows another EQU item, it is written on the SAME line ("a b equ 3"
	// defines both names); it must then have the same expression as that item
	JoinPrev bool
}

// For is a FOR/ROF block.  Labels are written before the counter name.
type For struct {
	Labels  []string
	Counter string // "" = no counter
	Count   Expr
	Body    []Item
	Dead    []string // only for blocks whose count is the literal 0: lines written verbatim into the body (an END line, old code fenced off); they vanish with the body
	Asserts []Expr   // ;assert lines written inside the body (closed expressions: no counter, no labels): they count when the block is expanded at least once
}

type Org struct{ E Expr }

func (*Instr) isItem() {}
func (*Equ) isItem()   {}
func (*For) isItem()   {}
func (*Org) isItem()   {}

// Prog is an abstract program.
type Prog struct {
	Cfg       Config
	Items     []Item
	EndArg    Expr     // nil = plain END
	EndLabels []string // labels written in front of END: they denote the address after the last instruction
	Name      string
	Author    string
	Strategy  []string // one entry per ;strategy line
	Asserts   []Expr   // ;assert lines (all must be non-zero for the program to be accepted)
}

// Meaning is what a program denotes.
type Meaning struct {
	Code     []mars.Insn
	Start    int
	Name     string
	Author   string
	Strategy string
}

var (
	ErrOutOfDomain = errors.New("outside the determinate domain")
	ErrAssert      = errors.New("assertion failed")
	ErrIllegal88   = errors.New("illegal ICWS'88 instruction")
)

// ---------------------------------------------------------------------------
// FOR unrolling on the abstract program

func substExpr(e Expr, name string, v int) Expr {
	switch x := e.(type) {
	case Ref:
		if x.Name == name {
			return Lit{V: v}
		}
		return x
	case Un:
		return Un{x.Signs, substExpr(x.X, name, v)}
	case Bin:
		return Bin{x.Op, substExpr(x.L, name, v), substExpr(x.R, name, v)}
	case Par:
		return Par{substExpr(x.X, name, v)}
	}
	return e
}

func substItem(it Item, name string, v int) Item {
	switch x := it.(type) {
	case *Instr:
		n := *x
		n.A = Operand{x.A.Mode, substExpr(x.A.E, name, v)}
		if x.B != nil {
			n.B = &Operand{x.B.Mode, substExpr(x.B.E, name, v)}
		}
		return &n
	case *For:
		n := *x
		n.Count = substExpr(x.Count, name, v)
		n.Body = nil
		for _, b := range x.Body {
			n.Body = append(n.Body, substItem(b, name, v))
		}
		return &n
	case *Equ:
		return &Equ{Name: x.Name, E: substExpr(x.E, name, v), JoinPrev: x.JoinPrev}
	case *Org:
		return &Org{substExpr(x.E, name, v)}
	}
	return it
}

// UnrollStats describes the FOR structure of a program.
type UnrollStats struct {
	Expansions int // number of block instances expanded (one per FOR/ROF pair instance)
	MaxDepth   int
	ZeroCounts int
	Blocks     int // FOR blocks as written
}

// Unroll writes every FOR body out count times, the counter replaced by
// 1..count; labels written before the counter are attached to the first
// instruction the block emits.  Counts are evaluated with the EQUs defined
// (textually) before the block.
func Unroll(p *Prog) (*Prog, UnrollStats, error) {
	var st UnrollStats
	equ := map[string][]Tok{}
	var bodyAsserts []Expr
	var expand func(items []Item, depth int) ([]Item, error)
	expand = func(items []Item, depth int) ([]Item, error) {
		var out []Item
		for _, it := range items {
			switch x := it.(type) {
			case *Equ:
				if depth == 0 {
					equ[x.Name] = Tokens(x.E)
				}
				out = append(out, x)
			case *For:
				if depth+1 > st.MaxDepth {
					st.MaxDepth = depth + 1
				}
				st.Expansions++
				env := Env{EQU: equ, Atom: func(name string) (*big.Int, bool) {
					// a FOR count sees the predefined constants like any other expression
					switch name {
					case "CORESIZE":
						return big.NewInt(int64(p.Cfg.CoreSize)), true
					case "MAXLENGTH":
						return big.NewInt(int64(p.Cfg.Length)), true
					case "MAXPROCESSES":
						return big.NewInt(int64(p.Cfg.Processes)), true
					case "MINDISTANCE":
						return big.NewInt(int64(p.Cfg.Distance)), true
					}
					return nil, false
				}}
				v, err := env.Eval(Tokens(x.Count))
				if err != nil {
					return nil, fmt.Errorf("FOR count: %w", err)
				}
				if !v.IsInt64() || v.Int64() < 0 || v.Int64() > 64 {
					return nil, ErrOutOfDomain
				}
				n := int(v.Int64())
				if n == 0 {
					st.ZeroCounts++
				} else {
					bodyAsserts = append(bodyAsserts, x.Asserts...)
				}
				var emitted []Item
				for i := 1; i <= n; i++ {
					var body []Item
					for _, b := range x.Body {
						if x.Counter != "" {
							body = append(body, substItem(b, x.Counter, i))
						} else {
							body = append(body, b)
						}
					}
					sub, err := expand(body, depth+1)
					if err != nil {
						return nil, err
					}
					emitted = append(emitted, sub...)
					if len(emitted) > 4000 {
						return nil, ErrOutOfDomain
					}
				}
				if len(x.Labels) > 0 {
					attached := false
					for k, e := range emitted {
						if ins, ok := e.(*Instr); ok {
							n := *ins
							n.Labels = append(append([]string{}, x.Labels...), ins.Labels...)
							emitted[k] = &n
							attached = true
							break
						}
					}
					if !attached {
						return nil, ErrOutOfDomain // a block label on a block that emits nothing
					}
				}
				out = append(out, emitted...)
			default:
				out = append(out, it)
			}
		}
		return out, nil
	}
	var countBlocks func(items []Item)
	countBlocks = func(items []Item) {
		for _, it := range items {
			if f, ok := it.(*For); ok {
				st.Blocks++
				countBlocks(f.Body)
			}
		}
	}
	countBlocks(p.Items)
	items, err := expand(p.Items, 0)
	if err != nil {
		return nil, st, err
	}
	q := *p
	q.Items = items
	if len(bodyAsserts) > 0 {
		q.Asserts = append(append([]Expr{}, p.Asserts...), bodyAsserts...)
	}
	return &q, st, nil
}

// ---------------------------------------------------------------------------
// default modifiers and the ICWS'88 table

var opByName = map[string]mars.Op{"dat": mars.DAT, "mov": mars.MOV, "add": mars.ADD, "sub": mars.SUB, "mul": mars.MUL, "div": mars.DIV, "mod": mars.MOD,
	"jmp": mars.JMP, "jmz": mars.JMZ, "jmn": mars.JMN, "djn": mars.DJN, "cmp": mars.CMP, "seq": mars.SEQ, "sne": mars.SNE, "slt": mars.SLT, "spl": mars.SPL, "nop": mars.NOP}

var modByName = map[string]mars.Mod{"a": mars.MA, "b": mars.MB, "ab": mars.MAB, "ba": mars.MBA, "f": mars.MF, "x": mars.MX, "i": mars.MI}

var modeByChar = map[byte]mars.Mode{'#': mars.IMM, '$': mars.DIR, '*': mars.AIND, '@': mars.BIND, '{': mars.ADEC, '<': mars.BDEC, '}': mars.AINC, '>': mars.BINC}

// Ops88 are the mnemonics of ICWS'88.
var Ops88 = []string{"dat", "mov", "add", "sub", "jmp", "jmz", "jmn", "djn", "cmp", "slt", "spl"}

// Ops94 are all mnemonics of the data model.
var Ops94 = []string{"dat", "mov", "add", "sub", "mul", "div", "mod", "jmp", "jmz", "jmn", "djn", "cmp", "seq", "sne", "slt", "spl", "nop"}

func OpByName(s string) (mars.Op, bool)   { o, ok := opByName[strings.ToLower(s)]; return o, ok }
func ModByName(s string) (mars.Mod, bool) { m, ok := modByName[strings.ToLower(s)]; return m, ok }
func ModeByChar(c byte) (mars.Mode, bool) { m, ok := modeByChar[c]; return m, ok }

// DefaultMod94 is the ICWS'94 draft's default modifier table, with pMARS'
// choice of B for NOP (the repository's own pMARS load file fixes that).
func DefaultMod94(op mars.Op, am, bm mars.Mode) mars.Mod {
	switch op {
	case mars.DAT:
		return mars.MF
	case mars.NOP:
		return mars.MB
	case mars.MOV, mars.CMP, mars.SEQ, mars.SNE:
		if am == mars.IMM {
			return mars.MAB
		}
		if bm == mars.IMM {
			return mars.MB
		}
		return mars.MI
	case mars.ADD, mars.SUB, mars.MUL, mars.DIV, mars.MOD:
		if am == mars.IMM {
			return mars.MAB
		}
		if bm == mars.IMM {
			return mars.MB
		}
		return mars.MF
	case mars.SLT:
		if am == mars.IMM {
			return mars.MAB
		}
		return mars.MB
	default: // JMP JMZ JMN DJN SPL
		return mars.MB
	}
}

// Legal88 is the table of legal ICWS'88 instructions, written from the
// standard (SLT with immediate B allowed, as the repository's suite documents).
// It returns the modifier the standard implies.
func Legal88(op mars.Op, am, bm mars.Mode) (mars.Mod, bool) {
	in := func(m mars.Mode, set ...mars.Mode) bool {
		for _, s := range set {
			if m == s {
				return true
			}
		}
		return false
	}
	four := []mars.Mode{mars.IMM, mars.DIR, mars.BIND, mars.BDEC}
	if !in(am, four...) || !in(bm, four...) {
		return 0, false
	}
	switch op {
	case mars.DAT:
		if in(am, mars.IMM, mars.BDEC) && in(bm, mars.IMM, mars.BDEC) {
			return mars.MF, true
		}
	case mars.MOV, mars.CMP:
		if bm != mars.IMM {
			if am == mars.IMM {
				return mars.MAB, true
			}
			return mars.MI, true
		}
	case mars.ADD, mars.SUB:
		if bm != mars.IMM {
			if am == mars.IMM {
				return mars.MAB, true
			}
			return mars.MF, true
		}
	case mars.SLT:
		if am == mars.IMM {
			return mars.MAB, true
		}
		return mars.MB, true
	case mars.JMP, mars.JMZ, mars.JMN, mars.DJN, mars.SPL:
		if am != mars.IMM {
			return mars.MB, true
		}
	}
	return 0, false
}

// ---------------------------------------------------------------------------
// meaning

// Meaning computes what the program denotes, without going through gmars.
// ErrOutOfDomain is returned when the documents do not determine the result
// (a value leaving the 32-bit range, entry point outside the code, ...).
func (p *Prog) Meaning() (*Meaning, error) {
	flat, _, err := Unroll(p)
	if err != nil {
		return nil, err
	}
	cfg := p.Cfg
	m := cfg.CoreSize
	equ := map[string][]Tok{}
	labels := map[string]int{}
	var instrs []*Instr
	var org Expr
	for _, it := range flat.Items {
		switch x := it.(type) {
		case *Equ:
			equ[x.Name] = Tokens(x.E)
		case *Instr:
			for _, l := range x.Labels {
				labels[l] = len(instrs)
			}
			instrs = append(instrs, x)
		case *Org:
			org = x.E
		}
	}
	for _, l := range p.EndLabels {
		labels[l] = len(instrs)
	}
	consts := map[string]int{"CORESIZE": cfg.CoreSize, "MAXLENGTH": cfg.Length, "MAXPROCESSES": cfg.Processes, "MINDISTANCE": cfg.Distance}
	envAt := func(line int) *Env {
		return &Env{EQU: equ, Atom: func(name string) (*big.Int, bool) {
			if v, ok := consts[name]; ok {
				return big.NewInt(int64(v)), true
			}
			if v, ok := labels[name]; ok {
				return big.NewInt(int64(v - line)), true
			}
			return nil, false
		}}
	}
	for _, a := range flat.Asserts {
		v, err := envAt(0).Eval(Tokens(a))
		if err != nil {
			return nil, err
		}
		if !FitsInt32(v) {
			return nil, ErrOutOfDomain
		}
		if v.Sign() == 0 {
			return nil, ErrAssert
		}
	}
	out := &Meaning{Name: p.Name, Author: p.Author}
	for _, s := range p.Strategy {
		out.Strategy += s + "\n"
	}
	for i, ins := range instrs {
		op, ok := opByName[ins.Op]
		if !ok {
			return nil, fmt.Errorf("unknown opcode %q", ins.Op)
		}
		defMode := mars.DIR
		if cfg.Dialect == D88 && op == mars.DAT {
			defMode = mars.IMM
		}
		mode := func(c byte) mars.Mode {
			if c == 0 {
				return defMode
			}
			return modeByChar[c]
		}
		am := mode(ins.A.Mode)
		bm := defMode
		if ins.B != nil {
			bm = mode(ins.B.Mode)
		}
		var mod mars.Mod
		if cfg.Dialect == D88 {
			mm, legal := Legal88(op, am, bm)
			if !legal {
				return nil, ErrIllegal88
			}
			mod = mm
		} else if ins.Mod != "" {
			mod = modByName[ins.Mod]
		} else {
			mod = DefaultMod94(op, am, bm)
		}
		env := envAt(i)
		av, err := env.Eval(Tokens(ins.A.E))
		if err != nil {
			return nil, err
		}
		if !FitsInt32(av) {
			return nil, ErrOutOfDomain
		}
		a := ModM(av, m)
		b := 0
		if ins.B != nil {
			bv, err := env.Eval(Tokens(ins.B.E))
			if err != nil {
				return nil, err
			}
			if !FitsInt32(bv) {
				return nil, ErrOutOfDomain
			}
			b = ModM(bv, m)
		} else if op == mars.DAT {
			// lone operand of DAT goes to the B-field, #0 in the A-field
			bm, b = am, a
			am, a = mars.IMM, 0
		} else {
			// lone operand of any other opcode stays in the A-field, $0 in the B-field (README "Empty Fields")
			bm, b = mars.DIR, 0
		}
		out.Code = append(out.Code, mars.Insn{Op: op, Mod: mod, AM: am, BM: bm, A: a, B: b})
	}
	startE := org
	if p.EndArg != nil {
		if org != nil {
			return nil, ErrOutOfDomain // the documents disagree on precedence
		}
		startE = p.EndArg
	}
	if startE != nil {
		v, err := envAt(0).Eval(Tokens(startE))
		if err != nil {
			return nil, err
		}
		if !v.IsInt64() || v.Int64() < 0 || (v.Int64() >= int64(len(out.Code)) && !(len(out.Code) == 0 && v.Int64() == 0)) {
			return nil, ErrOutOfDomain
		}
		out.Start = int(v.Int64())
	}
	if len(out.Code) > cfg.Length {
		return nil, ErrOutOfDomain
	}
	return out, nil
}
