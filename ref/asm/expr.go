// Package asm holds the assembler-side reference: abstract Redcode programs,
// their by-construction meaning, renderers, an exact (big.Int) expression
// evaluator, a FOR unroller, the ICWS'88 legality table and load-file
// printers/readers.  It is written from the ICWS'88/'94 documents and the
// README of gmars, never from gmars' code, and does not import gmars.
package asm

import (
	"errors"
	"fmt"
	"math/big"
	"strings"
)

// Rand is the randomness the generators need.
type Rand interface {
	Intn(n int) int
}

// ---------------------------------------------------------------------------
// tokens of an expression

type TokKind uint8

const (
	TNum TokKind = iota
	TIdent
	TOp // + - * / %
	TLPar
	TRPar
)

type Tok struct {
	Kind TokKind
	Text string
}

func Num(v int) Tok      { return Tok{TNum, fmt.Sprint(v)} }
func Ident(s string) Tok { return Tok{TIdent, s} }
func OpTok(op byte) Tok  { return Tok{TOp, string(op)} }

// ---------------------------------------------------------------------------
// expression AST (generation side)

type Expr interface{ isExpr() }

type Lit struct {
	V     int // >= 0
	Zeros int // leading zeros when rendered
}
type Ref struct{ Name string }
type Un struct {
	Signs string // e.g. "-", "--+", never empty
	X     Expr
}
type Bin struct {
	Op   byte
	L, R Expr
}
type Par struct{ X Expr }

func (Lit) isExpr() {}
func (Ref) isExpr() {}
func (Un) isExpr()  {}
func (Bin) isExpr() {}
func (Par) isExpr() {}

func prec(op byte) int {
	if op == '+' || op == '-' {
		return 1
	}
	return 2
}

// Tokens flattens an expression, inserting exactly the parentheses the
// structure needs (plus the explicit Par nodes).
func Tokens(e Expr) []Tok {
	var out []Tok
	var walk func(e Expr, minPrec int, rightSide bool)
	walk = func(e Expr, minPrec int, rightSide bool) {
		switch x := e.(type) {
		case Lit:
			out = append(out, Tok{TNum, strings.Repeat("0", x.Zeros) + fmt.Sprint(x.V)})
		case Ref:
			out = append(out, Ident(x.Name))
		case Par:
			out = append(out, Tok{TLPar, "("})
			walk(x.X, 0, false)
			out = append(out, Tok{TRPar, ")"})
		case Un:
			for i := 0; i < len(x.Signs); i++ {
				out = append(out, OpTok(x.Signs[i]))
			}
			// the operand of a unary sign is a primary
			switch x.X.(type) {
			case Lit, Ref, Par:
				walk(x.X, 3, false)
			default:
				out = append(out, Tok{TLPar, "("})
				walk(x.X, 0, false)
				out = append(out, Tok{TRPar, ")"})
			}
		case Bin:
			p := prec(x.Op)
			need := p < minPrec || (rightSide && p == minPrec)
			if need {
				out = append(out, Tok{TLPar, "("})
			}
			walk(x.L, p, false)
			out = append(out, OpTok(x.Op))
			walk(x.R, p, true)
			if need {
				out = append(out, Tok{TRPar, ")"})
			}
		}
	}
	walk(e, 0, false)
	return out
}

// Text renders tokens; sp decides whether a blank is put before token i (i>0).
func Text(toks []Tok, sp func(i int) string) string {
	var b strings.Builder
	for i, t := range toks {
		if i > 0 && sp != nil {
			b.WriteString(sp(i))
		}
		b.WriteString(t.Text)
	}
	return b.String()
}

// ---------------------------------------------------------------------------
// evaluation (oracle side): textual EQU substitution, then exact arithmetic

var (
	ErrDivZero   = errors.New("division by zero")
	ErrSyntax    = errors.New("malformed expression")
	ErrUndefined = errors.New("undefined symbol")
	ErrCycle     = errors.New("cyclic EQU definitions")
)

// Env resolves identifiers.  EQUs are substituted textually (token lists);
// Atom gives the integer value of labels, predefined constants and counters.
type Env struct {
	EQU  map[string][]Tok
	Atom func(name string) (*big.Int, bool)
}

// Expand substitutes EQU names textually until none is left.
func (env *Env) Expand(toks []Tok) ([]Tok, error) {
	for round := 0; round < 64; round++ {
		changed := false
		var out []Tok
		for _, t := range toks {
			if t.Kind == TIdent && env.EQU != nil {
				if v, ok := env.EQU[t.Text]; ok {
					out = append(out, v...)
					changed = true
					continue
				}
			}
			out = append(out, t)
		}
		toks = out
		if !changed {
			return toks, nil
		}
		if len(toks) > 1<<16 {
			return nil, ErrCycle
		}
	}
	return nil, ErrCycle
}

// Eval evaluates a token list: usual precedence, left associativity, any run
// of unary signs, division and remainder truncating toward zero.
func (env *Env) Eval(toks []Tok) (*big.Int, error) {
	toks, err := env.Expand(toks)
	if err != nil {
		return nil, err
	}
	p := &parser{toks: toks, env: env}
	v, err := p.expr()
	if err != nil {
		return nil, err
	}
	if p.pos != len(toks) {
		return nil, ErrSyntax
	}
	return v, nil
}

type parser struct {
	toks []Tok
	pos  int
	env  *Env
}

func (p *parser) peek() *Tok {
	if p.pos < len(p.toks) {
		return &p.toks[p.pos]
	}
	return nil
}

func (p *parser) expr() (*big.Int, error) {
	v, err := p.term()
	if err != nil {
		return nil, err
	}
	for {
		t := p.peek()
		if t == nil || t.Kind != TOp || (t.Text != "+" && t.Text != "-") {
			return v, nil
		}
		p.pos++
		r, err := p.term()
		if err != nil {
			return nil, err
		}
		if t.Text == "+" {
			v = new(big.Int).Add(v, r)
		} else {
			v = new(big.Int).Sub(v, r)
		}
	}
}

func (p *parser) term() (*big.Int, error) {
	v, err := p.unary()
	if err != nil {
		return nil, err
	}
	for {
		t := p.peek()
		if t == nil || t.Kind != TOp || (t.Text != "*" && t.Text != "/" && t.Text != "%") {
			return v, nil
		}
		p.pos++
		r, err := p.unary()
		if err != nil {
			return nil, err
		}
		switch t.Text {
		case "*":
			v = new(big.Int).Mul(v, r)
		case "/":
			if r.Sign() == 0 {
				return nil, ErrDivZero
			}
			v = new(big.Int).Quo(v, r) // truncates toward zero
		case "%":
			if r.Sign() == 0 {
				return nil, ErrDivZero
			}
			v = new(big.Int).Rem(v, r) // sign of the dividend
		}
	}
}

func (p *parser) unary() (*big.Int, error) {
	neg := false
	for {
		t := p.peek()
		if t == nil {
			return nil, ErrSyntax
		}
		if t.Kind == TOp && t.Text == "-" {
			neg = !neg
			p.pos++
		} else if t.Kind == TOp && t.Text == "+" {
			p.pos++
		} else {
			break
		}
	}
	v, err := p.primary()
	if err != nil {
		return nil, err
	}
	if neg {
		v = new(big.Int).Neg(v)
	}
	return v, nil
}

func (p *parser) primary() (*big.Int, error) {
	t := p.peek()
	if t == nil {
		return nil, ErrSyntax
	}
	switch t.Kind {
	case TNum:
		p.pos++
		v, ok := new(big.Int).SetString(t.Text, 10)
		if !ok {
			return nil, ErrSyntax
		}
		return v, nil
	case TIdent:
		p.pos++
		if p.env.Atom != nil {
			if v, ok := p.env.Atom(t.Text); ok {
				return v, nil
			}
		}
		return nil, fmt.Errorf("%w: %s", ErrUndefined, t.Text)
	case TLPar:
		p.pos++
		v, err := p.expr()
		if err != nil {
			return nil, err
		}
		t2 := p.peek()
		if t2 == nil || t2.Kind != TRPar {
			return nil, ErrSyntax
		}
		p.pos++
		return v, nil
	}
	return nil, ErrSyntax
}

// ModM reduces v into [0,m).
func ModM(v *big.Int, m int) int {
	r := new(big.Int).Mod(v, big.NewInt(int64(m))) // Euclidean: always >= 0 for m > 0
	return int(r.Int64())
}

// FitsInt32 reports whether v is representable in 32 bits (gmars' documented range).
func FitsInt32(v *big.Int) bool {
	return v.IsInt64() && v.Int64() >= -(1<<31) && v.Int64() <= (1<<31)-1
}
