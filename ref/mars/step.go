// Package mars is the reference MARS used by the monitors as their "other
// opinion".  It is written from the ICWS'94 draft (section 5.6, EMI94.c) and
// the pMARS extension of A-number indirect modes, not from gmars: signed int
// arithmetic, mathematical mod, Fold exactly as in the draft.  It does not
// import gmars.
package mars

type Op uint8

const (
	DAT Op = iota
	MOV
	ADD
	SUB
	MUL
	DIV
	MOD
	JMP
	JMZ
	JMN
	DJN
	CMP
	SEQ // same behaviour as CMP, distinct value in the data model
	SNE
	SLT
	SPL
	NOP
	NumOps
)

var OpNames = [NumOps]string{"DAT", "MOV", "ADD", "SUB", "MUL", "DIV", "MOD", "JMP", "JMZ", "JMN", "DJN", "CMP", "SEQ", "SNE", "SLT", "SPL", "NOP"}

type Mod uint8

const (
	MF Mod = iota
	MA
	MB
	MAB
	MBA
	MX
	MI
	NumMods
)

var ModNames = [NumMods]string{"F", "A", "B", "AB", "BA", "X", "I"}

type Mode uint8

const (
	DIR  Mode = iota // $
	IMM              // #
	AIND             // *
	BIND             // @
	ADEC             // {
	BDEC             // <
	AINC             // }
	BINC             // >
	NumModes
)

var ModeChars = [NumModes]byte{'$', '#', '*', '@', '{', '<', '}', '>'}

// Empty is the content of an unused core cell (DAT.F $0, $0), also the zero value.
var Empty = Insn{Op: DAT, Mod: MF, AM: DIR, BM: DIR}

// Insn is one core cell. A and B are always kept in [0,M).
type Insn struct {
	Op     Op
	Mod    Mod
	AM, BM Mode
	A, B   int
}

type EvKind uint8

const (
	EvDec   EvKind = iota // a field of cell Addr was decremented (pre-decrement mode or DJN)
	EvInc                 // a field of cell Addr was incremented (post-increment mode)
	EvWrite               // cell Addr is the write target of MOV/ADD/SUB/MUL/DIV/MOD
	EvDie                 // the task terminated (DAT or division by zero); Addr = PC
)

type Event struct {
	Kind  EvKind
	Addr  int
	Phase uint8 // 1 = A-operand evaluation, 2 = B-operand evaluation, 3 = execution of the opcode
}

// Fold is the draft's Fold(pointer, limit, M).
func Fold(pointer, limit, m int) int {
	r := pointer % limit
	if r > limit/2 {
		r += m - limit
	}
	return r
}

func pmod(x, m int) int {
	x %= m
	if x < 0 {
		x += m
	}
	return x
}

func isA(mode Mode) bool { return mode == AIND || mode == ADEC || mode == AINC }

// StepInfo is what one executed task did besides changing the core.
type StepInfo struct {
	Succ   [2]int // successors in queueing order
	NSucc  int
	Events []Event // only filled when rec is true
	RA, RB int     // absolute addresses the A and B operand were read from
	WB     int     // absolute write address of the B operand
	Died   bool
}

// Step executes the instruction at pc on core (len(core)==m) with read limit rl
// and write limit wl, modifying core in place.  With noFold the limits are
// ignored altogether (every pointer is only reduced modulo m).
func Step(core []Insn, pc, m, rl, wl int, rec, noFold bool) StepInfo {
	var info StepInfo
	foldR := func(p int) int {
		if noFold {
			return pmod(p, m)
		}
		return Fold(p, rl, m)
	}
	foldW := func(p int) int {
		if noFold {
			return pmod(p, m)
		}
		return Fold(p, wl, m)
	}
	phase := uint8(1)
	ev := func(k EvKind, a int) {
		if rec {
			info.Events = append(info.Events, Event{k, a, phase})
		}
	}
	field := func(c *Insn, a bool) *int {
		if a {
			return &c.A
		}
		return &c.B
	}

	ir := core[pc]

	// operand evaluation, identical for A and B
	evalOperand := func(mode Mode, num int) (rp, wp int, ins Insn) {
		if mode != IMM {
			rp = foldR(num)
			wp = foldW(num)
			if mode != DIR {
				useA := isA(mode)
				pip := -1
				if mode == ADEC || mode == BDEC {
					f := field(&core[(pc+wp)%m], useA)
					*f = (*f + m - 1) % m
					ev(EvDec, (pc+wp)%m)
				}
				if mode == AINC || mode == BINC {
					pip = (pc + wp) % m
				}
				rp = foldR(rp + *field(&core[(pc+rp)%m], useA))
				wp = foldW(wp + *field(&core[(pc+wp)%m], useA))
				ins = core[(pc+rp)%m]
				if pip >= 0 {
					f := field(&core[pip], useA)
					*f = (*f + 1) % m
					ev(EvInc, pip)
				}
				return
			}
		}
		ins = core[(pc+rp)%m]
		return
	}

	rpa, _, ira := evalOperand(ir.AM, ir.A)
	phase = 2
	rpb, wpb, irb := evalOperand(ir.BM, ir.B)
	phase = 3

	wab := (pc + wpb) % m
	rab := (pc + rpa) % m
	info.RA = rab
	info.RB = (pc + rpb) % m
	info.WB = wab
	next := (pc + 1) % m
	skip := (pc + 2) % m
	w := &core[wab]

	queue := func(a int) {
		info.Succ[info.NSucc] = a
		info.NSucc++
	}
	die := func() {
		info.Died = true
		ev(EvDie, pc)
	}

	arith := func(op func(x, y int) (int, bool)) {
		dead := false
		set := func(dst *int, x, y int) {
			if v, ok := op(x, y); ok {
				*dst = v
			} else {
				dead = true
			}
		}
		switch ir.Mod {
		case MA:
			set(&w.A, irb.A, ira.A)
		case MB:
			set(&w.B, irb.B, ira.B)
		case MAB:
			set(&w.B, irb.B, ira.A)
		case MBA:
			set(&w.A, irb.A, ira.B)
		case MF, MI:
			set(&w.A, irb.A, ira.A)
			set(&w.B, irb.B, ira.B)
		case MX:
			set(&w.B, irb.B, ira.A)
			set(&w.A, irb.A, ira.B)
		}
		ev(EvWrite, wab)
		if dead {
			die()
		} else {
			queue(next)
		}
	}

	switch ir.Op {
	case DAT:
		die()
	case MOV:
		switch ir.Mod {
		case MA:
			w.A = ira.A
		case MB:
			w.B = ira.B
		case MAB:
			w.B = ira.A
		case MBA:
			w.A = ira.B
		case MF:
			w.A, w.B = ira.A, ira.B
		case MX:
			w.B, w.A = ira.A, ira.B
		case MI:
			*w = ira
		}
		ev(EvWrite, wab)
		queue(next)
	case ADD:
		arith(func(x, y int) (int, bool) { return (x + y) % m, true })
	case SUB:
		arith(func(x, y int) (int, bool) { return (x + m - y) % m, true })
	case MUL:
		arith(func(x, y int) (int, bool) { return (x * y) % m, true })
	case DIV:
		arith(func(x, y int) (int, bool) {
			if y == 0 {
				return 0, false
			}
			return x / y, true
		})
	case MOD:
		arith(func(x, y int) (int, bool) {
			if y == 0 {
				return 0, false
			}
			return x % y, true
		})
	case JMP:
		queue(rab)
	case JMZ, JMN, DJN:
		a2, b2 := irb.A, irb.B
		if ir.Op == DJN {
			switch ir.Mod {
			case MA, MBA:
				w.A = (w.A + m - 1) % m
				a2 = (a2 + m - 1) % m
			case MB, MAB:
				w.B = (w.B + m - 1) % m
				b2 = (b2 + m - 1) % m
			default:
				w.A = (w.A + m - 1) % m
				a2 = (a2 + m - 1) % m
				w.B = (w.B + m - 1) % m
				b2 = (b2 + m - 1) % m
			}
			ev(EvDec, wab)
		}
		var zero bool
		switch ir.Mod {
		case MA, MBA:
			zero = a2 == 0
		case MB, MAB:
			zero = b2 == 0
		default:
			zero = a2 == 0 && b2 == 0
		}
		if (ir.Op == JMZ) == zero {
			queue(rab)
		} else {
			queue(next)
		}
	case CMP, SEQ, SNE, SLT:
		var eq, lt bool
		switch ir.Mod {
		case MA:
			eq, lt = ira.A == irb.A, ira.A < irb.A
		case MB:
			eq, lt = ira.B == irb.B, ira.B < irb.B
		case MAB:
			eq, lt = ira.A == irb.B, ira.A < irb.B
		case MBA:
			eq, lt = ira.B == irb.A, ira.B < irb.A
		case MF:
			eq, lt = ira.A == irb.A && ira.B == irb.B, ira.A < irb.A && ira.B < irb.B
		case MX:
			eq, lt = ira.A == irb.B && ira.B == irb.A, ira.A < irb.B && ira.B < irb.A
		case MI:
			eq, lt = ira == irb, ira.A < irb.A && ira.B < irb.B
		}
		c := eq
		if ir.Op == SNE {
			c = !eq
		} else if ir.Op == SLT {
			c = lt
		}
		if c {
			queue(skip)
		} else {
			queue(next)
		}
	case SPL:
		queue(next)
		queue(rab)
	case NOP:
		queue(next)
	}
	return info
}
