package mars

import "errors"

// WarriorCode is what a caller hands to the simulator.
type WarriorCode struct {
	Code  []Insn
	Start int
}

type WState uint8

const (
	Added WState = iota
	Alive
	Dead
)

type RefWarrior struct {
	Data  WarriorCode
	State WState
	Queue []int // FIFO, front at index 0
}

// Battle is the reference scheduler and, at the same time, the reference
// state machine of the simulator API (C13): every method mirrors one API call.
type Battle struct {
	M, P, C, RL, WL int
	Core            []Insn
	W               []*RefWarrior
	Cycle           int
	Living          int

	// Trace, when non-nil, receives every executed task.
	Trace func(t TaskTrace)
	Rec   bool // record semantic events in the trace
}

// TaskTrace describes one executed task.
type TaskTrace struct {
	Cycle   int
	Warrior int
	PC      int
	Info    StepInfo
	Pushed  []int // successors actually queued (after the process limit)
	Dropped int   // successors dropped at the process limit
	WDied   bool  // the warrior died with this task
}

var (
	ErrIndex   = errors.New("warrior index out of range")
	ErrRunning = errors.New("warrior already running")
	ErrEmpty   = errors.New("no tasks")
)

func NewBattle(m, p, c, rl, wl int) *Battle {
	return &Battle{M: m, P: p, C: c, RL: rl, WL: wl, Core: make([]Insn, m)}
}

func (b *Battle) Add(w WarriorCode) int {
	cp := WarriorCode{Code: append([]Insn(nil), w.Code...), Start: w.Start}
	b.W = append(b.W, &RefWarrior{Data: cp})
	return len(b.W) - 1
}

// Spawn loads warrior i at offset off (any non-negative number) and starts it.
func (b *Battle) Spawn(i int, off int) error {
	if i < 0 || i >= len(b.W) {
		return ErrIndex
	}
	w := b.W[i]
	if w.State == Alive {
		return ErrRunning
	}
	off = pmod(off, b.M)
	for j, ins := range w.Data.Code {
		b.Core[(off+j)%b.M] = ins
	}
	w.Queue = []int{pmod(off+w.Data.Start, b.M)}
	w.State = Alive
	b.Living++
	return nil
}

// Decided reports whether the battle is over (or cannot proceed).
func (b *Battle) Decided() bool {
	n := len(b.W)
	switch {
	case n == 0:
		return true
	case b.Cycle >= b.C:
		return true
	case n == 1:
		return b.Living == 0
	default:
		return b.Living <= 1
	}
}

// RunCycle executes one cycle: every living warrior, in loading order, runs the
// task at the front of its queue.  It returns false (and changes nothing) when
// the battle is already decided.  A multi-warrior battle that is decided in
// the middle of a cycle stops right there and that cycle is not counted.
func (b *Battle) RunCycle() bool {
	if b.Decided() {
		return false
	}
	n := len(b.W)
	for i, w := range b.W {
		if w.State != Alive {
			continue
		}
		pc := w.Queue[0]
		w.Queue = w.Queue[1:]
		info := Step(b.Core, pc, b.M, b.RL, b.WL, b.Rec, false)
		var tr TaskTrace
		if b.Trace != nil {
			tr = TaskTrace{Cycle: b.Cycle, Warrior: i, PC: pc, Info: info}
		}
		for k := 0; k < info.NSucc; k++ {
			if len(w.Queue) < b.P {
				w.Queue = append(w.Queue, info.Succ[k])
				if b.Trace != nil {
					tr.Pushed = append(tr.Pushed, info.Succ[k])
				}
			} else {
				tr.Dropped++
			}
		}
		died := false
		if len(w.Queue) == 0 {
			w.State = Dead
			b.Living--
			died = true
		}
		if b.Trace != nil {
			tr.WDied = died
			b.Trace(tr)
		}
		if died && n > 1 && b.Living == 1 {
			return true // decided mid-cycle; the cycle is not completed
		}
	}
	b.Cycle++
	return true
}

// Run steps until the battle is decided and returns the alive vector
// (nil when no warrior was ever added).
func (b *Battle) Run() []bool {
	if len(b.W) == 0 {
		return nil
	}
	for b.RunCycle() {
	}
	return b.AliveVec()
}

func (b *Battle) AliveVec() []bool {
	out := make([]bool, len(b.W))
	for i, w := range b.W {
		out[i] = w.State == Alive
	}
	return out
}

func (b *Battle) Reset() {
	for i := range b.Core {
		b.Core[i] = Empty
	}
	for _, w := range b.W {
		w.State = Added
		w.Queue = nil
	}
	b.Cycle = 0
	b.Living = 0
}

func (b *Battle) NextPC(i int) (int, error) {
	w := b.W[i]
	if len(w.Queue) == 0 {
		return 0, ErrEmpty
	}
	return w.Queue[0], nil
}
