#!/bin/bash
# builds the orchestrator from /verif sources only (offline) and warms the build cache
set -eu
cd "$(dirname "$0")"
export GOFLAGS=-mod=mod GOPROXY=off GOSUMDB=off GOTOOLCHAIN=local
mkdir -p bin .work evidence replays
go build -o bin/vrun ./cmd/vrun
# warm the cache for the worker (normal and -race); failures here are not fatal
go build -tags verif -o /dev/null ./worker || true
go build -race -tags verif -o /dev/null ./worker || true
echo "setup ok"
