package main

type phase struct {
	Name   string
	Race   bool     // build the worker with -race and collect race reports
	Shards int      // 0 = number of CPUs
	Tier   string   // "" = both tiers
	Env    []string // extra environment for the worker
}

type propSpec struct {
	ID          string
	Rule        string
	Assumptions []string
	Floor       map[string]int // minimum distinct non-trivial cases per tier; below it the run is inconclusive
	Phases      []phase
	NeedCLI     bool
}

var mainPhase = []phase{{Name: "main"}}

var commonAssumptions = []string{
	"runtime monitoring: the verdict covers exactly the executions produced by this run, nothing is proved",
	"the Go toolchain, the race detector and the verif-tagged hook file verif_hooks.go (read-only walk of internal state) are trusted",
}

var specs = map[string]*propSpec{
	"C01": {
		ID: "C01",
		Rule: "case idx -> (M,R,W,P,core,PC,k): the form at PC is ENUMERATED (idx mod 7616 over all 17x7x8x8 forms), every other cell a random form, fields boundary-biased " +
			"(0,1,2,L/2-1,L/2,L/2+1,L-1,L,L+1,M-2,M-1 for L in {R,W,M}) mixed with uniform values; M in 3..16 dense plus {17,31,64,100,800,8000,2^20}; R,W independent in 1..M (1/4 R=W=M); " +
			"two systematic strata come first: a boundary GRID walked completely (every form x A in {0,1,2,M-1} x B in {0,1,2,M-1} x limits (M,M),(1,M),(M,1),(1,1),(2,2),(M-1,*) on cores of 3..8) and cores above 2^16 (65537..2^20) with arithmetic on operands above 2^16 (products above 2^32); each case is run k in 1..8 cycles in lock-step with the reference (EMI94 transliteration) comparing every cell and the whole queue after every step. " +
			"non-trivial = a step that wrote/incremented/decremented a cell, jumped, skipped, split or died; distinct by (form executed, limit class, M class)",
		Assumptions: append([]string{
			"reference step = transliteration of the ICWS'94 draft's EMI94.c with the A-number indirect modes added symmetrically (ref/mars/step.go); CMP and SEQ behave identically",
			"M is capped at 2^20, so a uint64 overflow in MUL (needs M>2^32) is not reachable"}, commonAssumptions...),
		Floor:  map[string]int{"quick": 20000, "thorough": 60000},
		Phases: mainPhase,
	},
	"C02": {
		ID: "C02",
		Rule: "case idx -> battle of 1..4 warriors of 'lively hostile' code (SPL/MOV/JMP/DJN heavy, DAT and division by zero seeded, 1/5 uniformly random forms), M 3..48, P 1..8, C 1..300, " +
			"random (overlapping, wrapping) load offsets and entry points, 1/6 with read/write limits < M, 1/40 of the warriors longer than the core. Monitor (a): a Reporter records executed (warrior,pc) pairs; after EVERY cycle these, RunCycle's return value, " +
			"core, queues, alive flags, living count and CycleCount are compared with the reference scheduler. Monitor (b): a second real simulator driven by one Run() call must end in the same state. " +
			"One case in 401 is a LONG battle of the repository's own warriors (plus a splitter) on a core of 8000 with process limits 8000/64/7 and up to 80000 cycles: executed PCs and RunCycle's return value compared every cycle, full state every 997 cycles and at the end. " +
			"non-trivial = battle with a multi-warrior death, a mid-cycle decision leaving later warriors unexecuted, a push dropped at the process limit, the cycle limit reached with several alive, or 3-4 warriors; " +
			"distinct by (warrior count, event set, M/8, P)",
		Assumptions: append([]string{
			"reference scheduler in ref/mars/battle.go; the cycle in which a multi-warrior battle is decided is not counted as completed (the statement is silent on the partial cycle; gmars' convention)"}, commonAssumptions...),
		Floor:  map[string]int{"quick": 300, "thorough": 1000},
		Phases: mainPhase,
	},
	"C13": {
		ID: "C13",
		Rule: "part 1 (walked completely, as a workload): every call sequence up to depth 3 (quick) / 4 (thorough) over the alphabet {AddWarrior(w0|w1|w2|w3) (imp, DAT, a loop entered at its second cell, a warrior without code), SpawnWarrior(i,off) i in -1..count+1, off in {0,M-1,M,2M+3}, " +
			"RunCycle, Run, Reset, GetWarrior(i), GetMem(2M+3)} on a core of 5; part 2: random histories of 3..40 calls (M 5..8, P 1..3, C in {1,2,3,5,40}, two extra random warriors, some longer than the core; offsets and GetMem addresses also near 2^32, 2^63 and 2^64-1) biased toward Reset, respawn and calls after decision, half of them steered by a private model so that live battles are mostly stepped; one random history in 1201 is a MARATHON of 1500..3000 steered calls on one simulator; " +
			"after EVERY call the monitor compares return values/errors/nils, core, queues, NextPC, alive flags, counters and the internal invariants with the reference API state machine; Run() executes under a CPU-time progress monitor; " +
			"half of the random histories are extended to the relational check (prefix; Reset; respawn; tail) vs (fresh; spawn; tail) compared call by call on two real simulators. " +
			"non-trivial = history containing a call that cannot apply (bad index, running warrior, stepping/running a decided, empty or never-started battle); distinct by the sequence of call kinds",
		Assumptions: append([]string{
			"reference API state machine = ref/mars/battle.go: out-of-range index => error/nil and no change; spawn of a living warrior => error; spawn of an added or dead warrior (re)loads and revives it; RunCycle/Run on a decided, empty or never-started battle change nothing (their return value is then unconstrained, except that a non-nil Run() result must be the alive vector); Reset => empty core, cycle 0, no tasks"}, commonAssumptions...),
		Floor:  map[string]int{"quick": 2000, "thorough": 20000},
		Phases: mainPhase,
	},
	"C04": {
		ID: "C04",
		Rule: "case idx -> configuration (half: every field independently from {0,1,2,3,4,5,7,8,16,100,2^10,2^16,2^20} or uniform in 0..2^20; half: plausible small cores 3..64 with limits =M, <M, >M) -> NewReportingSimulator must return error xor simulator without panicking; " +
			"every accepted configuration is USED: 1..4 warriors of uniformly random instruction forms (all 7616, boundary-biased fields), spawned at offsets in [0,3M), then stepped cycle by cycle, dead warriors being spawned again at random (or driven by Run(), 1/4) " +
			"with the API-level invariants (fields and queued PCs < M, tasks <= P, CycleCount <= C, living count == #alive, alive <=> has tasks) and the internal-invariant hook evaluated after EVERY cycle. " +
			"non-trivial = accepted configuration whose battle reported a write/inc/dec outside the executing warrior's own load area; distinct by (limit class, M class, P, warrior count, Run/step, opcode set bucket)",
		Assumptions: append([]string{
			"on cores > 4096 cells at most 40 cycles are stepped, the full-core scan and the internal hook run after spawning and at the end; in between only the addresses named by reports of that cycle are scanned"}, commonAssumptions...),
		Floor:  map[string]int{"quick": 300, "thorough": 1000},
		Phases: mainPhase,
	},
	"C12": {
		ID: "C12",
		Rule: "case idx -> battle of 1..3 warriors (generator of C02, half with read/write limits < M), run to completion by Run() at shift 0 and at shifts k (all k for M<=16 in thorough; otherwise 1, M-1, two random and the two shifts that make the first warrior's code / entry point wrap) " +
			"and, for a third of them, at k+M and k+2M, and at offsets congruent to k but just below 2^63 and 2^64 (incl. ones for which offset+length passes 2^64); survivors, CycleCount, queues rotated by k and core rotated by k must be equal (two real simulators, no reference model involved). " +
			"non-trivial = shifted placement in which code or entry point wraps past M-1, or an offset >= M; distinct by (warrior count, wrap kind, limits or not, M/4, length of warrior 0)",
		Assumptions: commonAssumptions,
		Floor:       map[string]int{"quick": 300, "thorough": 1000},
		Phases:      mainPhase,
	},
	"C15": {
		ID: "C15",
		Rule: "case idx -> battle of 1..4 warriors (generator of C02, M<=48, 1/3 with limits, 1/3 of the placements at offsets >= M, 1/5 with a Reset+respawn in the middle; one case in 1201 is a reset MARATHON: 260..600 spawn / run-a-little / Reset rounds on one simulator and one recorder, which must be empty after every Reset) with my own Reporter and the bundled StateRecorder attached. " +
			"The report-stream monitor cuts the stream into tasks at TaskPop, snapshots the core at every TaskPop and checks per task: address < M and warrior index valid on every report; TaskPop (warrior,pc) == reference executed task and the core at TaskPop == reference core before the task; " +
			"{cells changed} subset of {cells named by write/inc/dec reports of that warrior in that task} subset of {cells the reference semantics may touch}; task-terminate / warrior-terminate reports <=> reference deaths. " +
			"After every cycle the StateRecorder is compared cell by cell with an independent fold of the same stream and with the last-toucher fold of the reference event stream (owner exact, kind among the kinds of that task; a touch that left the content unchanged is optional); after Reset every address must be empty. " +
			"non-trivial = task with a pre-decrement/post-increment side effect on a cell other than the write target; distinct by (opcode, A-mode, B-mode)",
		Assumptions: append([]string{
			"inside one task TaskPop comes first and the side effects of operand evaluation (A before B) precede the opcode's own write / decrement / death (the recorder must show the LAST operation on a cell); the order of 'write' and 'task terminated' inside the execution phase is not prescribed; read reports are not checked"}, commonAssumptions...),
		Floor:  map[string]int{"quick": 300, "thorough": 800},
		Phases: mainPhase,
	},
	"C11": {
		ID: "C11",
		Rule: "case idx -> step case of C01 (form at PC enumerated over all 7616, boundary-biased fields incl. L/2, L/2+1 for L in {R,W}), 7/8 with R<M or W<M, 1/8 with R=W=M; preceded by the boundary grid of C01 (every form x A,B in {0,1,2,M-1} x six limit classes incl. limits 1 and 2); each of k in 1..8 steps is executed on a fresh real simulator and observed from outside: " +
			"(a) every cell that differs after the step is within floor(W/2) of the PC and every queued successor other than PC+1/PC+2 within floor(R/2); (b) non-interference twin: a second real simulator whose core differs only at distance > max(R/2,W/2) from the PC (all such cells re-randomised) " +
			"must end with the same cells inside the window, the same queue, and must not touch anything outside it — this makes operand fetches observable at the API boundary; (c) with R=W=M the step equals the reference step computed with folding removed. " +
			"non-trivial = step with a write at distance >= 1 or a non-sequential successor; distinct by (form, R<M or not, W<M or not)",
		Assumptions: append([]string{
			"the window of the twin is max(floor(R/2),floor(W/2)): the draft reads the second-level write pointer and the pre-decrement/post-increment target through the write-limit-folded pointer, so cells up to floor(W/2) are legitimately read when W>R"}, commonAssumptions...),
		Floor:  map[string]int{"quick": 10000, "thorough": 20000},
		Phases: mainPhase,
	},
	"C03": {
		ID: "C03",
		Rule: "case idx -> abstract program (1..12 instructions over all opcodes of the dialect, optional modifier/modes/second operand, operands mixing literals, labels (backward, forward, several per line), EQU chains (forward use), predefined constants, small arithmetic; ORG or END argument, never both; optionally a label on the END line (= address after the last instruction); optional ;name/;author/;strategy, 1/12 of them longer than 4 KiB with multi-byte characters at every alignment) " +
			"under a random valid configuration (core sizes from 3 to 2^34 incl. small primes, 1/12 tiny cores 3..8 whose maximum length is the whole core and which the program then often fills completely; both dialects; ICWS94 and NOP94 modes). Its meaning is computed by construction (ref/asm: label table, textual EQU substitution, own big.Int precedence-climbing evaluator, dialect default tables, lone-operand rule). " +
			"Each program is rendered 3 (quick) / 4 (thorough) ways varying mnemonic case, blanks/tabs, blank and comment lines, trailing comments, colons, labels on their own lines, alpha-renamed labels, EQU placement, explicit default modes, missing final newline, text after END, comments of 4090..70000 bytes (ASCII and multi-byte); every rendering is assembled by the real CompileWarrior and compared with the meaning (code, entry point, metadata). " +
			"non-trivial = program using labels and EQUs, or relying on a defaulted modifier; distinct by (dialect, feature set, defaulted?, opcode classes, length/3)",
		Assumptions: append([]string{
			"meaning follows DESIGN.md section 2 (pMARS NOP.B default, '88 DAT operands default to #, README lone-operand rule); names that collide with mnemonics/pseudo-ops/predefined constants and labels inside FOR bodies are not generated; values leaving the 32-bit range are skipped"}, commonAssumptions...),
		Floor:  map[string]int{"quick": 300, "thorough": 1500},
		Phases: mainPhase,
	},
	"C07": {
		ID: "C07",
		Rule: "case idx -> expression AST of depth 1..6 over literals (incl. 0 and leading zeros), + - * / %, unary sign runs of length 1..5 (at the start, after an operator, after '(' and introduced through EQU substitution, e.g. x equ -1 ... 5*-x), redundant parentheses, " +
			"0..3 EQUs (negative, compound 'a+b' so that textual substitution matters, chained), the four predefined constants under varying configurations, labels; rendered with no/single/random blanks and placed in one of four positions: " +
			"operand fields of 'dat #e1, #e2' (6/10; under core size 2^34 the value is recovered exactly, under small M its reduction), 'org e' / 'end e' with 40 instructions, 'i for e ... rof' (count = emitted instructions), ';assert e' (accept <=> value != 0). " +
			"The oracle is an independent big.Int precedence-climbing evaluator over the textually substituted token list; division by zero must be an error; values beyond 32 bits are only required not to panic. " +
			"non-trivial = expression with a sign run >= 2, a negative / or % operand, or a sign introduced through an EQU; distinct by (position, AST shape)",
		Assumptions: append([]string{
			"EQU substitution is textual (pMARS semantics, the README's FOR example and the statement's 'substituted textually'); labels, predefined constants and FOR counters are atomic integer values"}, commonAssumptions...),
		Floor:  map[string]int{"quick": 2000, "thorough": 20000},
		Phases: mainPhase,
	},
	"C08": {
		ID: "C08",
		Rule: "case idx -> abstract program with FOR/ROF blocks in sequence and nested (depth <= 3), counts 0..6 as literals or expressions over EQUs defined earlier, counters used inside operand arithmetic of inner and outer bodies, counter-less blocks, optional block labels referenced from inside the block, labelled blocks whose body starts with a nested block (explicitly constructed, outer count 1..3), names that differ only by letter case, EQUs written between the blocks " +
			"(1/6 of the programs also from outside: known-finding stratum), up to 40 block expansions in total (strata 0..12 and 13..40), both dialects, random layout. Three-way comparison: CompileWarrior(program) vs CompileWarrior(manual unrolling done on the abstract program by the harness) vs by-construction meaning. " +
			"The only accepted failures are exactly the four known findings (signature = input predicate + exact error text); pinned witnesses of the four known findings and the two README examples run as cases 0..5 of every invocation. " +
			"non-trivial = >= 2 blocks, nesting, or a counter inside arithmetic; distinct by block-tree shape",
		Assumptions: append([]string{
			"FOR counts only see EQUs written before the block (gmars gathers EQUs up to the first remaining FOR; forward EQUs in counts are outside the quantifier); labels inside bodies and block labels on blocks that emit nothing are not generated"}, commonAssumptions...),
		Floor:  map[string]int{"quick": 300, "thorough": 3000},
		Phases: mainPhase,
	},
	"C09": {
		ID: "C09",
		Rule: "case idx -> warrior W (length 1..{1,5,20,100}; first instruction ENUMERATES every form legal in the dialect: all 7616 in '94, the whole independent '88 table in '88; fields across [0,M) with 0, M/2, M/2+1, M-1 favoured; every entry point; M in {3,7,80,800,8000,8192,55440}) " +
			"printed in the canonical load-file layout (ORG n / OP.MOD m a, m b / END in '94; OP m a, m b / END n in '88) with fields unsigned, signed, congruent (>= M or <= -M) or mixed, then perturbed by a set of layout-only perturbations " +
			"{case, extra blanks/tabs, CR-LF, comment lines, blank lines, trailing comments, metadata comments, no final newline, last line is a comment, no END line, comment lines / trailing blanks / trailing comments of 4090..70000 bytes}: canonical (1/4), single (1/4), random products (1/2). BOTH readers (ParseLoadFile and CompileWarrior) read the same text; code and entry point must equal W. " +
			"non-trivial = text with >= 2 perturbations or a signed/congruent spelling; distinct by (dialect, perturbation set, spelling class)",
		Assumptions: commonAssumptions,
		Floor:       map[string]int{"quick": 500, "thorough": 1500},
		Phases:      mainPhase,
	},
	"C10": {
		ID: "C10",
		Rule: "case idx -> canonical load file of a small warrior with 1-2 random corruptions (field deleted/duplicated/transposed, number out of range / negative / huge / malformed, unknown mnemonic, '94-only opcode or mode, illegal '88 combination, ORG/END in odd places with 0/1/2/4 arguments, comma removed, line duplicated/deleted, garbage line, short metadata line, lines of 4090..70000 bytes (padding, long comments, long garbage), non-ASCII letters incl. ones whose lower-case form has another byte length), " +
			"optionally layout-perturbed, then: truncated at EVERY byte offset (1/4 of the cases), at one random offset, or not at all; both dialects; M in {3,7,80,8000}. The monitor requires: no panic; error xor warrior; on success entry point inside the code (0 when empty), every field < M, enums inside the data model, " +
			"in '88 only legal '88 instructions with the implied modifier (independent table), and conservation: number of instructions read == number of instruction-shaped lines the structural line accountant saw before the end marker. " +
			"non-trivial = accepted corrupted or truncated text; distinct by (dialect, corruption kind, outcome, length)",
		Assumptions: append([]string{
			"line accountant (ref/asm/loadfile.go) is structural only: a line is blank/comment, an ORG directive, the END marker, or 'instruction-shaped' (anything else) — it decodes nothing, so it cannot agree with the reader by construction"}, commonAssumptions...),
		Floor:  map[string]int{"quick": 200, "thorough": 600},
		Phases: mainPhase,
	},
	"C05": {
		ID: "C05",
		Rule: "case idx -> (valid configuration incl. all three modes and Length in {0,1,5,...}, byte string): cases 0..N are fixed hostile programs (EQU cycles with ;assert, self-growing EQUs, FOR blocks that fail half-way: bad count, missing ROF, lexer error after the block, nested, unterminated; NUL/^Z/invalid UTF-8; very long lines, deep parentheses, long sign runs); " +
			"the rest: valid programs (generator of C03/C08), byte-level mutations (hostile bytes, deletions, flips, CR/CRLF, stripped final newline), token-level mutations (word replaced, lines duplicated/deleted/swapped/joined, pseudo-op lines inserted), the repository's own warriors (plain and mutated) and token soup over the real vocabulary. " +
			"Inputs whose estimated FOR expansion exceeds 50k tokens are not generated. Process-level monitors around every CompileWarrior call, one call at a time per worker: panic; error xor warrior (zero WarriorData with an error, non-nil Code without); " +
			"goroutine-leak monitor (goroutine count + goroutine profile: a goroutine with a gmars frame blocked in a channel operation after its creator returned can never run again); progress monitor (CPU time consumed inside the call against a fixed budget, deadlock = caller blocked in a channel operation with no runnable gmars goroutine); RSS cap 2 GiB (6 GiB under the race detector). Thorough repeats 1/8 of the corpus on a -race worker. " +
			"non-trivial = input that gets past the lexer or exercises the FOR expander; distinct by (input class, outcome / error-site prefix)",
		Assumptions: append([]string{
			"'time proportional to the size' is decided only as: CPU time inside the call stays below a fixed budget (6 s; 60 s under the race detector), about 1000x the observed cost; an unbounded 'eventually' is not decidable by a finite run",
			"EQU fan-out and FOR-count blow-up are the documented semantics of textual substitution and are kept out of the workload (bounded chains, expansion estimate)"}, commonAssumptions...),
		Floor:  map[string]int{"quick": 40, "thorough": 60},
		Phases: []phase{{Name: "main"}, {Name: "race", Race: true, Tier: "thorough"}},
	},
	"C06": {
		ID: "C06",
		Rule: "case idx -> (configuration over all three modes, Length in {0,1,5,20,100,300}, text): half near-valid mutations of valid programs (a mode swapped to a '94-only one, an operand forced to immediate, ORG/END argument moved to len-1/len/len+1/-1, body repeated to max length -1/0/+1/+2/+7, opcode swapped to a '94-only or modified one, extreme literals, an EQU whose value starts with a mode character used as a mode-less operand, token mutations), half the hostile corpus of C05. " +
			"Every input on which CompileWarrior SUCCEEDS is checked against the structural predicate (fields < M, 0 <= Start < len or empty with Start 0, len <= configured Length, enums inside the data model) and, in ICWS88 mode, against the independent '88 legality table with the implied modifier. " +
			"non-trivial = accepted mutated input; distinct by (mode, mutation class, min(len,6))",
		Assumptions: commonAssumptions,
		Floor:       map[string]int{"quick": 100, "thorough": 200},
		Phases:      mainPhase,
	},
	"C16": {
		ID: "C16",
		Rule: "case idx -> warrior (first instruction ENUMERATES all forms legal in the dialect; fields across [0,M) with 0, M/2, M/2+1, M-1 forced on half of the cases; every entry point; M in {3,7,80,257,8000,8191,8192} and occasionally 2^20; ICWS88, ICWS94 and NOP94 simulators) obtained through the real assembler, the real loader, or hand-made WarriorData; " +
			"AddWarrior + LoadCode() — taken right after adding, after SpawnWarrior at a random offset, after a few cycles, or after Reset — gives the listing, which an independent reader of the pMARS listing conventions (START label, ORG START / END START, signed fields in (-M,M), upper-case OP.MOD in '94, no modifier in '88 with the modifier implied by the '88 table) must read back to exactly the warrior, fields compared modulo M; a third of the simulators have random read/write/process/cycle limits. One case in 40 runs the freshly built cmd/gmars with -A on a by-construction program under a preset or -8/-s/-l flags and reads its stdout back with the conventions of the rule set and core size those options select. " +
			"non-trivial = entry point != 0 or a field > M/2 (printed negative); distinct by (dialect, form of the first instruction)",
		Assumptions: commonAssumptions,
		Floor:       map[string]int{"quick": 2000, "thorough": 5000},
		Phases:      mainPhase,
		NeedCLI:     true,
	},
	"C17": {
		ID: "C17",
		Rule: "case idx -> one invocation of the freshly built cmd/gmars: flag vector over -s -p -c -l -8 -preset (all six names; half of them with -s/-c added, which must be ignored) -F -r with core size >= 3*length+1 (1/12 of the -s values above 2^16), 1/8 single-warrior, fixed placement 2/3 (any position in 1..s-1, boundary values favoured) or random placement; " +
			"warrior files are written by the harness from by-construction programs (generator of C03/C08 rendered with random layout) and from hand-made warriors with a known fate (imp, dwarf, instant death, slow death after ~50/3000/24000/40000 cycles, process-queue filler, ...); the first cases pin every preset with a slow-dying warrior against one that sits still, the two preset repairs, and two invocations on a core of 100000 whose outcome depends on a product above 2^32; warrior files are rendered with random layout incl. comments longer than 4 KiB. " +
			"Process monitor: exit status 0, empty stderr, exactly the expected number of 'wins ties' lines; fixed placement: the lines equal rounds x the outcome of the reference MARS run on the by-construction meanings under the configuration the options describe (preset table written from the README); random placement: wins1+wins2+ties == rounds and ties1 == ties2, and on cores <= 600 the reference enumerates every placement the tool may draw (2*length..size-length-1): the tallies may only contain outcomes some placement produces (exact when all placements agree). " +
			"non-trivial = decided (non-tie) battle or non-default flag set; distinct by (flag set, outcome)",
		Assumptions: append([]string{
			"the options describe: read/write limits equal to the core size, minimum distance equal to the maximum length (flags) or the hill's usual minimum distance (presets: 100,100,100,20,10,5 — the README table has no such column); other preset values as documented in the README table",
			"a 120 s wall-clock limit per CLI invocation only produces an INCONCLUSIVE line, never a verdict"}, commonAssumptions...),
		Floor:   map[string]int{"quick": 30, "thorough": 100},
		Phases:  mainPhase,
		NeedCLI: true,
	},
	"C14": {
		ID: "C14",
		Rule: "case idx -> one round: (0) AddWarrior/SpawnWarrior must leave the caller's WarriorData bit-identical even when it holds fields at or above the simulator's core size; (1) aliasing monitor: snapshot the caller's WarriorData, AddWarrior, scribble over the caller's Code/Start/Name/Author, spawn, and compare the battle (core, queues, after spawning and after Run) with the reference battle of the data as it was when added; afterwards the caller's data must be exactly what the caller wrote; " +
			"(2) cross-simulator history probe: a simulator with a large process limit is run and Reset, then a simulator with a small limit runs a splitting warrior and must end exactly like the reference; " +
			"(3) 8..48 jobs {assemble valid / hostile / FOR-heavy / EQU-heavy (incl. several undefined symbols) text, load a perturbed load file, build a simulator with its own process and cycle limits + add SHARED *WarriorData + spawn + Run (half of them: Reset, respawn, Run again)}, the first three texts repeated 20x and every FOR/EQU-heavy one 8x; " +
			"half of the jobs are first run alone, the other half only after the concurrent phase (no warm cache); then all of them run on 1..32 goroutines under GOMAXPROCS in {1,2,4,16}; every concurrent result (error?, WarriorData / survivors, cycle count, core hash, queues) must equal the run-alone one, every battle must also equal the reference MARS, and the shared WarriorData must be unchanged. " +
			"The race phase runs the same rounds on a -race build (halt_on_error=0, log_path); race reports are counted from the log files and de-duplicated by the functions on top of the two stacks — any report is a violation. " +
			"non-trivial = job that overlapped in time with a job of another kind (atomic in-flight gauges); distinct by (kind pair, GOMAXPROCS)",
		Assumptions: append([]string{
			"error MESSAGES are not compared (a message naming 'the first' undefined symbol may follow map order); sharing one Simulator between threads is not claimed by the property and not exercised; porcupine does not apply: there is no shared concurrent object whose operations could be linearized"}, commonAssumptions...),
		Floor:  map[string]int{"quick": 20, "thorough": 60},
		Phases: []phase{{Name: "main", Shards: 8}, {Name: "race", Race: true, Shards: 8}},
	},
}
