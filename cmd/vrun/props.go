package main

type phase struct {
	Name   string
	Race   bool     // build the worker with -race and collect race reports
	Shards int      // 0 = number of CPUs
	Tier   string   // "" = both tiers
	Env    []string // extra environment for the worker
}

type propSpec struct {
	ID          string
	Rule        string
	Assumptions []string
	Floor       map[string]int // minimum distinct non-trivial cases per tier; below it the run is inconclusive
	Phases      []phase
	NeedCLI     bool
}

var mainPhase = []phase{{Name: "main"}}

var commonAssumptions = []string{
	"runtime monitoring: the verdict covers exactly the executions produced by this run, nothing is proved",
	"the Go toolchain, the race detector and the verif-tagged hook file verif_hooks.go (read-only walk of internal state) are trusted",
}

var specs = map[string]*propSpec{
	"C01": {
		ID: "C01",
		Rule: "case idx -> (M,R,W,P,core,PC,k): the form at PC is ENUMERATED (idx mod 7616 over all 17x7x8x8 forms), every other cell a random form, fields boundary-biased " +
			"(0,1,2,L/2-1,L/2,L/2+1,L-1,L,L+1,M-2,M-1 for L in {R,W,M}) mixed with uniform values; M in 3..16 dense plus {17,31,64,100,800,8000,2^20}; R,W independent in 1..M (1/4 R=W=M); " +
			"each case is run k in 1..8 cycles in lock-step with the reference (EMI94 transliteration) comparing every cell and the whole queue after every step. " +
			"non-trivial = a step that wrote/incremented/decremented a cell, jumped, skipped, split or died; distinct by (form executed, limit class, M class)",
		Assumptions: append([]string{
			"reference step = transliteration of the ICWS'94 draft's EMI94.c with the A-number indirect modes added symmetrically (ref/mars/step.go); CMP and SEQ behave identically",
			"M is capped at 2^20, so a uint64 overflow in MUL (needs M>2^32) is not reachable"}, commonAssumptions...),
		Floor:  map[string]int{"quick": 20000, "thorough": 60000},
		Phases: mainPhase,
	},
	"C02": {
		ID: "C02",
		Rule: "case idx -> battle of 1..4 warriors of 'lively hostile' code (SPL/MOV/JMP/DJN heavy, DAT and division by zero seeded, 1/5 uniformly random forms), M 3..48, P 1..8, C 1..300, " +
			"random (overlapping, wrapping) load offsets and entry points, 1/6 with read/write limits < M. Monitor (a): a Reporter records executed (warrior,pc) pairs; after EVERY cycle these, RunCycle's return value, " +
			"core, queues, alive flags, living count and CycleCount are compared with the reference scheduler. Monitor (b): a second real simulator driven by one Run() call must end in the same state. " +
			"non-trivial = battle with a multi-warrior death, a mid-cycle decision leaving later warriors unexecuted, a push dropped at the process limit, the cycle limit reached with several alive, or 3-4 warriors; " +
			"distinct by (warrior count, event set, M/8, P)",
		Assumptions: append([]string{
			"reference scheduler in ref/mars/battle.go; the cycle in which a multi-warrior battle is decided is not counted as completed (the statement is silent on the partial cycle; gmars' convention)"}, commonAssumptions...),
		Floor:  map[string]int{"quick": 300, "thorough": 1000},
		Phases: mainPhase,
	},
	"C13": {
		ID: "C13",
		Rule: "part 1 (walked completely, as a workload): every call sequence up to depth 3 (quick) / 4 (thorough) over the alphabet {AddWarrior(w0|w1|w2), SpawnWarrior(i,off) i in -1..count+1, off in {0,M-1,M,2M+3}, " +
			"RunCycle, Run, Reset, GetWarrior(i), GetMem(2M+3)} on a core of 5; part 2: random histories of 3..40 calls (M 5..8, P 1..3, C in {1,2,3,5,40}, two extra random warriors) biased toward Reset, respawn and calls after decision; " +
			"after EVERY call the monitor compares return values/errors/nils, core, queues, NextPC, alive flags, counters and the internal invariants with the reference API state machine; Run() executes under a CPU-time progress monitor; " +
			"half of the random histories are extended to the relational check (prefix; Reset; respawn; tail) vs (fresh; spawn; tail) compared call by call on two real simulators. " +
			"non-trivial = history containing a call that cannot apply (bad index, running warrior, stepping/running a decided, empty or never-started battle); distinct by the sequence of call kinds",
		Assumptions: append([]string{
			"reference API state machine = ref/mars/battle.go: out-of-range index => error/nil and no change; spawn of a living warrior => error; spawn of an added or dead warrior (re)loads and revives it; RunCycle/Run on a decided, empty or never-started battle change nothing (their return value is then unconstrained, except that a non-nil Run() result must be the alive vector); Reset => empty core, cycle 0, no tasks"}, commonAssumptions...),
		Floor:  map[string]int{"quick": 2000, "thorough": 20000},
		Phases: mainPhase,
	},
	"C04": {
		ID: "C04",
		Rule: "case idx -> configuration (half: every field independently from {0,1,2,3,4,5,7,8,16,100,2^10,2^16,2^20} or uniform in 0..2^20; half: plausible small cores 3..64 with limits =M, <M, >M) -> NewReportingSimulator must return error xor simulator without panicking; " +
			"every accepted configuration is USED: 1..4 warriors of uniformly random instruction forms (all 7616, boundary-biased fields), spawned at offsets in [0,3M), then stepped cycle by cycle (or driven by Run(), 1/4) " +
			"with the API-level invariants (fields and queued PCs < M, tasks <= P, CycleCount <= C, living count == #alive, alive <=> has tasks) and the internal-invariant hook evaluated after EVERY cycle. " +
			"non-trivial = accepted configuration whose battle reported a write/inc/dec outside the executing warrior's own load area; distinct by (limit class, M class, P, warrior count, Run/step, opcode set bucket)",
		Assumptions: append([]string{
			"on cores > 4096 cells at most 40 cycles are stepped, the full-core scan and the internal hook run after spawning and at the end; in between only the addresses named by reports of that cycle are scanned"}, commonAssumptions...),
		Floor:  map[string]int{"quick": 300, "thorough": 1000},
		Phases: mainPhase,
	},
	"C12": {
		ID: "C12",
		Rule: "case idx -> battle of 1..3 warriors (generator of C02, half with read/write limits < M), run to completion by Run() at shift 0 and at shifts k (all k for M<=16 in thorough; otherwise 1, M-1, two random and the two shifts that make the first warrior's code / entry point wrap) " +
			"and, for a third of them, at k+M and k+2M; survivors, CycleCount, queues rotated by k and core rotated by k must be equal (two real simulators, no reference model involved). " +
			"non-trivial = shifted placement in which code or entry point wraps past M-1, or an offset >= M; distinct by (warrior count, wrap kind, limits or not, M/4, length of warrior 0)",
		Assumptions: commonAssumptions,
		Floor:       map[string]int{"quick": 300, "thorough": 1000},
		Phases:      mainPhase,
	},
}
