package main

type phase struct {
	Name   string
	Race   bool     // build the worker with -race and collect race reports
	Shards int      // 0 = number of CPUs
	Tier   string   // "" = both tiers
	Env    []string // extra environment for the worker
}

type propSpec struct {
	ID          string
	Rule        string
	Assumptions []string
	Floor       map[string]int // minimum distinct non-trivial cases per tier; below it the run is inconclusive
	Phases      []phase
	NeedCLI     bool
}

var mainPhase = []phase{{Name: "main"}}

var commonAssumptions = []string{
	"runtime monitoring: the verdict covers exactly the executions produced by this run, nothing is proved",
	"the Go toolchain, the race detector and the verif-tagged hook file verif_hooks.go (read-only walk of internal state) are trusted",
}

var specs = map[string]*propSpec{
	"C01": {
		ID: "C01",
		Rule: "case idx -> (M,R,W,P,core,PC,k): the form at PC is ENUMERATED (idx mod 7616 over all 17x7x8x8 forms), every other cell a random form, fields boundary-biased " +
			"(0,1,2,L/2-1,L/2,L/2+1,L-1,L,L+1,M-2,M-1 for L in {R,W,M}) mixed with uniform values; M in 3..16 dense plus {17,31,64,100,800,8000,2^20}; R,W independent in 1..M (1/4 R=W=M); " +
			"each case is run k in 1..8 cycles in lock-step with the reference (EMI94 transliteration) comparing every cell and the whole queue after every step. " +
			"non-trivial = a step that wrote/incremented/decremented a cell, jumped, skipped, split or died; distinct by (form executed, limit class, M class)",
		Assumptions: append([]string{
			"reference step = transliteration of the ICWS'94 draft's EMI94.c with the A-number indirect modes added symmetrically (ref/mars/step.go); CMP and SEQ behave identically",
			"M is capped at 2^20, so a uint64 overflow in MUL (needs M>2^32) is not reachable"}, commonAssumptions...),
		Floor:  map[string]int{"quick": 20000, "thorough": 60000},
		Phases: mainPhase,
	},
}
