package main

type phase struct {
	Name   string
	Race   bool     // build the worker with -race and collect race reports
	Shards int      // 0 = number of CPUs
	Tier   string   // "" = both tiers
	Env    []string // extra environment for the worker
}

type propSpec struct {
	ID          string
	Rule        string
	Assumptions []string
	Floor       map[string]int // minimum distinct non-trivial cases per tier; below it the run is inconclusive
	Phases      []phase
	NeedCLI     bool
}

var mainPhase = []phase{{Name: "main"}}

var commonAssumptions = []string{
	"runtime monitoring: the verdict covers exactly the executions produced by this run, nothing is proved",
	"the Go toolchain, the race detector and the verif-tagged hook file verif_hooks.go (read-only walk of internal state) are trusted",
}

var specs = map[string]*propSpec{
	"C01": {
		ID: "C01",
		Rule: "case idx -> (M,R,W,P,core,PC,k): the form at PC is ENUMERATED (idx mod 7616 over all 17x7x8x8 forms), every other cell a random form, fields boundary-biased " +
			"(0,1,2,L/2-1,L/2,L/2+1,L-1,L,L+1,M-2,M-1 for L in {R,W,M}) mixed with uniform values; M in 3..16 dense plus {17,31,64,100,800,8000,2^20}; R,W independent in 1..M (1/4 R=W=M); " +
			"each case is run k in 1..8 cycles in lock-step with the reference (EMI94 transliteration) comparing every cell and the whole queue after every step. " +
			"non-trivial = a step that wrote/incremented/decremented a cell, jumped, skipped, split or died; distinct by (form executed, limit class, M class)",
		Assumptions: append([]string{
			"reference step = transliteration of the ICWS'94 draft's EMI94.c with the A-number indirect modes added symmetrically (ref/mars/step.go); CMP and SEQ behave identically",
			"M is capped at 2^20, so a uint64 overflow in MUL (needs M>2^32) is not reachable"}, commonAssumptions...),
		Floor:  map[string]int{"quick": 20000, "thorough": 60000},
		Phases: mainPhase,
	},
	"C02": {
		ID: "C02",
		Rule: "case idx -> battle of 1..4 warriors of 'lively hostile' code (SPL/MOV/JMP/DJN heavy, DAT and division by zero seeded, 1/5 uniformly random forms), M 3..48, P 1..8, C 1..300, " +
			"random (overlapping, wrapping) load offsets and entry points, 1/6 with read/write limits < M. Monitor (a): a Reporter records executed (warrior,pc) pairs; after EVERY cycle these, RunCycle's return value, " +
			"core, queues, alive flags, living count and CycleCount are compared with the reference scheduler. Monitor (b): a second real simulator driven by one Run() call must end in the same state. " +
			"non-trivial = battle with a multi-warrior death, a mid-cycle decision leaving later warriors unexecuted, a push dropped at the process limit, the cycle limit reached with several alive, or 3-4 warriors; " +
			"distinct by (warrior count, event set, M/8, P)",
		Assumptions: append([]string{
			"reference scheduler in ref/mars/battle.go; the cycle in which a multi-warrior battle is decided is not counted as completed (the statement is silent on the partial cycle; gmars' convention)"}, commonAssumptions...),
		Floor:  map[string]int{"quick": 300, "thorough": 1000},
		Phases: mainPhase,
	},
	"C13": {
		ID: "C13",
		Rule: "part 1 (walked completely, as a workload): every call sequence up to depth 3 (quick) / 4 (thorough) over the alphabet {AddWarrior(w0|w1|w2), SpawnWarrior(i,off) i in -1..count+1, off in {0,M-1,M,2M+3}, " +
			"RunCycle, Run, Reset, GetWarrior(i), GetMem(2M+3)} on a core of 5; part 2: random histories of 3..40 calls (M 5..8, P 1..3, C in {1,2,3,5,40}, two extra random warriors) biased toward Reset, respawn and calls after decision; " +
			"after EVERY call the monitor compares return values/errors/nils, core, queues, NextPC, alive flags, counters and the internal invariants with the reference API state machine; Run() executes under a CPU-time progress monitor; " +
			"half of the random histories are extended to the relational check (prefix; Reset; respawn; tail) vs (fresh; spawn; tail) compared call by call on two real simulators. " +
			"non-trivial = history containing a call that cannot apply (bad index, running warrior, stepping/running a decided, empty or never-started battle); distinct by the sequence of call kinds",
		Assumptions: append([]string{
			"reference API state machine = ref/mars/battle.go: out-of-range index => error/nil and no change; spawn of a living warrior => error; spawn of an added or dead warrior (re)loads and revives it; RunCycle/Run on a decided, empty or never-started battle change nothing (their return value is then unconstrained, except that a non-nil Run() result must be the alive vector); Reset => empty core, cycle 0, no tasks"}, commonAssumptions...),
		Floor:  map[string]int{"quick": 2000, "thorough": 20000},
		Phases: mainPhase,
	},
	"C04": {
		ID: "C04",
		Rule: "case idx -> configuration (half: every field independently from {0,1,2,3,4,5,7,8,16,100,2^10,2^16,2^20} or uniform in 0..2^20; half: plausible small cores 3..64 with limits =M, <M, >M) -> NewReportingSimulator must return error xor simulator without panicking; " +
			"every accepted configuration is USED: 1..4 warriors of uniformly random instruction forms (all 7616, boundary-biased fields), spawned at offsets in [0,3M), then stepped cycle by cycle (or driven by Run(), 1/4) " +
			"with the API-level invariants (fields and queued PCs < M, tasks <= P, CycleCount <= C, living count == #alive, alive <=> has tasks) and the internal-invariant hook evaluated after EVERY cycle. " +
			"non-trivial = accepted configuration whose battle reported a write/inc/dec outside the executing warrior's own load area; distinct by (limit class, M class, P, warrior count, Run/step, opcode set bucket)",
		Assumptions: append([]string{
			"on cores > 4096 cells at most 40 cycles are stepped, the full-core scan and the internal hook run after spawning and at the end; in between only the addresses named by reports of that cycle are scanned"}, commonAssumptions...),
		Floor:  map[string]int{"quick": 300, "thorough": 1000},
		Phases: mainPhase,
	},
	"C12": {
		ID: "C12",
		Rule: "case idx -> battle of 1..3 warriors (generator of C02, half with read/write limits < M), run to completion by Run() at shift 0 and at shifts k (all k for M<=16 in thorough; otherwise 1, M-1, two random and the two shifts that make the first warrior's code / entry point wrap) " +
			"and, for a third of them, at k+M and k+2M; survivors, CycleCount, queues rotated by k and core rotated by k must be equal (two real simulators, no reference model involved). " +
			"non-trivial = shifted placement in which code or entry point wraps past M-1, or an offset >= M; distinct by (warrior count, wrap kind, limits or not, M/4, length of warrior 0)",
		Assumptions: commonAssumptions,
		Floor:       map[string]int{"quick": 300, "thorough": 1000},
		Phases:      mainPhase,
	},
	"C15": {
		ID: "C15",
		Rule: "case idx -> battle of 1..4 warriors (generator of C02, M<=48, 1/3 with limits, 1/3 of the placements at offsets >= M, 1/5 with a Reset+respawn in the middle) with my own Reporter and the bundled StateRecorder attached. " +
			"The report-stream monitor cuts the stream into tasks at TaskPop, snapshots the core at every TaskPop and checks per task: address < M and warrior index valid on every report; TaskPop (warrior,pc) == reference executed task and the core at TaskPop == reference core before the task; " +
			"{cells changed} subset of {cells named by write/inc/dec reports of that warrior in that task} subset of {cells the reference semantics may touch}; task-terminate / warrior-terminate reports <=> reference deaths. " +
			"After every cycle the StateRecorder is compared cell by cell with an independent fold of the same stream and with the last-toucher fold of the reference event stream (owner exact, kind among the kinds of that task; a touch that left the content unchanged is optional); after Reset every address must be empty. " +
			"non-trivial = task with a pre-decrement/post-increment side effect on a cell other than the write target; distinct by (opcode, A-mode, B-mode)",
		Assumptions: append([]string{
			"the order of reports inside one task is not prescribed (only that TaskPop comes first); read reports are not checked"}, commonAssumptions...),
		Floor:  map[string]int{"quick": 300, "thorough": 800},
		Phases: mainPhase,
	},
	"C11": {
		ID: "C11",
		Rule: "case idx -> step case of C01 (form at PC enumerated over all 7616, boundary-biased fields incl. L/2, L/2+1 for L in {R,W}), 7/8 with R<M or W<M, 1/8 with R=W=M; each of k in 1..8 steps is executed on a fresh real simulator and observed from outside: " +
			"(a) every cell that differs after the step is within floor(W/2) of the PC and every queued successor other than PC+1/PC+2 within floor(R/2); (b) non-interference twin: a second real simulator whose core differs only at distance > max(R/2,W/2) from the PC (all such cells re-randomised) " +
			"must end with the same cells inside the window, the same queue, and must not touch anything outside it — this makes operand fetches observable at the API boundary; (c) with R=W=M the step equals the reference step computed with folding removed. " +
			"non-trivial = step with a write at distance >= 1 or a non-sequential successor; distinct by (form, R<M or not, W<M or not)",
		Assumptions: append([]string{
			"the window of the twin is max(floor(R/2),floor(W/2)): the draft reads the second-level write pointer and the pre-decrement/post-increment target through the write-limit-folded pointer, so cells up to floor(W/2) are legitimately read when W>R"}, commonAssumptions...),
		Floor:  map[string]int{"quick": 10000, "thorough": 20000},
		Phases: mainPhase,
	},
	"C03": {
		ID: "C03",
		Rule: "case idx -> abstract program (1..12 instructions over all opcodes of the dialect, optional modifier/modes/second operand, operands mixing literals, labels (backward, forward, several per line), EQU chains (forward use), predefined constants, small arithmetic; ORG or END argument, never both; optional ;name/;author/;strategy) " +
			"under a random valid configuration (core sizes from 3 to 2^34 incl. small primes; both dialects; ICWS94 and NOP94 modes). Its meaning is computed by construction (ref/asm: label table, textual EQU substitution, own big.Int precedence-climbing evaluator, dialect default tables, lone-operand rule). " +
			"Each program is rendered 3 (quick) / 4 (thorough) ways varying mnemonic case, blanks/tabs, blank and comment lines, trailing comments, colons, labels on their own lines, alpha-renamed labels, EQU placement, explicit default modes, missing final newline and text after END; every rendering is assembled by the real CompileWarrior and compared with the meaning (code, entry point, metadata). " +
			"non-trivial = program using labels and EQUs, or relying on a defaulted modifier; distinct by (dialect, feature set, defaulted?, opcode classes, length/3)",
		Assumptions: append([]string{
			"meaning follows DESIGN.md section 2 (pMARS NOP.B default, '88 DAT operands default to #, README lone-operand rule); names that collide with mnemonics/pseudo-ops/predefined constants and labels inside FOR bodies are not generated; values leaving the 32-bit range are skipped"}, commonAssumptions...),
		Floor:  map[string]int{"quick": 300, "thorough": 1500},
		Phases: mainPhase,
	},
}
