// vrun is the orchestrator behind check.sh: it rebuilds the worker from the
// current /repo tree (build tag verif), shards the deterministic case list
// over child processes, supervises them, merges what their monitors observed,
// matches discrepancies against the committed known-findings file and writes
// evidence/<ID>.json.  It does not import gmars.
package main

import (
	"bufio"
	"bytes"
	"crypto/sha1"
	"encoding/binary"
	"encoding/json"
	"fmt"
	"os"
	"os/exec"
	"path/filepath"
	"runtime"
	"sort"
	"strconv"
	"strings"
	"sync"
	"syscall"
	"time"
)

type Violation struct {
	Sig    string          `json:"sig"`
	Detail string          `json:"detail"`
	Idx    int64           `json:"idx"`
	Case   json.RawMessage `json:"case"`
}

type Result struct {
	Prop         string              `json:"prop"`
	Evaluations  int64               `json:"evaluations"`
	Counters     map[string]int64    `json:"counters"`
	Sets         map[string][]uint64 `json:"sets"`
	Samples      []json.RawMessage   `json:"samples"`
	Violations   []Violation         `json:"violations"`
	Known        []Violation         `json:"known"`
	Inconclusive []string            `json:"inconclusive"`
	Done         bool                `json:"done"`
}

type knownEntry struct {
	Status   string `json:"status"` // known | fixed
	Property string `json:"property"`
	Sig      string `json:"sig"`
	Site     string `json:"site"`
	What     string `json:"what"`
	Witness  string `json:"witness"`
	Commit   string `json:"commit,omitempty"`
}

var (
	verifDir    string
	repoDir     string
	workDir     string
	scratchRepo bool // VERIF_REPO points at a scratch copy (mutation self-test)
	hookMissing bool // verif_hooks.go did not compile: internal-state invariants not evaluated
)

func fatalf(code int, format string, a ...interface{}) {
	fmt.Printf(format+"\n", a...)
	os.Exit(code)
}

func goEnv() []string {
	env := os.Environ()
	env = append(env, "GOFLAGS=-mod=mod", "GOPROXY=off", "GOSUMDB=off", "GOTOOLCHAIN=local", "CGO_ENABLED=1")
	return env
}

// buildWorker builds the worker against repoDir.  Returns the binary path.
func buildWorker(race bool) (string, error) {
	modfile := filepath.Join(workDir, "go.mod")
	if _, err := os.Stat(modfile); err != nil {
		mod := fmt.Sprintf("module verif\n\ngo 1.22.0\n\nrequire github.com/bobertlo/gmars v0.0.0\n\nreplace github.com/bobertlo/gmars => %s\n", repoDir)
		if err := os.WriteFile(modfile, []byte(mod), 0o644); err != nil {
			return "", err
		}
		sum, err := os.ReadFile(filepath.Join(repoDir, "go.sum"))
		if err != nil {
			sum, _ = os.ReadFile(filepath.Join(verifDir, "go.sum"))
		}
		os.WriteFile(filepath.Join(workDir, "go.sum"), sum, 0o644)
	}
	name := "vworker"
	if race {
		name += "-race"
	}
	bin := filepath.Join(workDir, name)
	build := func(tags bool) ([]byte, error) {
		args := []string{"build", "-modfile=" + modfile}
		if tags {
			args = append(args, "-tags", "verif")
		}
		if race {
			args = append(args, "-race")
		}
		args = append(args, "-o", bin, "./worker")
		cmd := exec.Command("go", args...)
		cmd.Dir = verifDir
		cmd.Env = goEnv()
		return cmd.CombinedOutput()
	}
	out, err := build(true)
	if err != nil && strings.Contains(string(out), "verif_hooks.go") {
		// the hook file does not compile against this tree (an internal refactoring renamed what it
		// walks): fall back to the API-level monitors only and say so
		if out2, err2 := build(false); err2 == nil {
			hookMissing = true
			return bin, nil
		} else {
			out = append(out, out2...)
		}
	}
	if err != nil {
		return "", fmt.Errorf("%v\n%s", err, out)
	}
	return bin, nil
}

// buildCLI builds /repo/cmd/gmars from the current tree.
func buildCLI() (string, error) {
	bin := filepath.Join(workDir, "gmars-cli")
	cmd := exec.Command("go", "build", "-o", bin, "./cmd/gmars")
	cmd.Dir = repoDir
	cmd.Env = goEnv()
	out, err := cmd.CombinedOutput()
	if err != nil {
		return "", fmt.Errorf("%v\n%s", err, out)
	}
	return bin, nil
}

type shardOutcome struct {
	phase    string
	shard    int
	res      *Result
	crashed  bool
	timedOut bool
	lastIdx  int64
	stderr   string
	exit     int
}

func runShard(bin string, spec *propSpec, ph phase, tier string, seed int64, shard, nshards int, extraEnv []string, timeout time.Duration) shardOutcome {
	base := filepath.Join(workDir, fmt.Sprintf("%s-%s-%d", spec.ID, ph.Name, shard))
	outFile, logFile, errFile := base+".json", base+".case", base+".stderr"
	args := []string{"-prop", spec.ID, "-tier", tier, "-seed", strconv.FormatInt(seed, 10), "-shard", strconv.Itoa(shard),
		"-nshards", strconv.Itoa(nshards), "-out", outFile, "-caselog", logFile, "-phase", ph.Name}
	cmd := exec.Command(bin, args...)
	if !ph.Race {
		// address-space cap (the race detector needs a huge shadow mapping, so not there)
		cmd = exec.Command("bash", append([]string{"-c", "ulimit -v 6000000; exec \"$0\" \"$@\"", bin}, args...)...)
	}
	cmd.Dir = workDir
	ef, _ := os.Create(errFile)
	cmd.Stdout = ef
	cmd.Stderr = ef
	cmd.Env = append(os.Environ(), extraEnv...)
	cmd.Env = append(cmd.Env, ph.Env...)
	if os.Getenv("GOMEMLIMIT") == "" {
		cmd.Env = append(cmd.Env, "GOMEMLIMIT=3GiB") // collect garbage well before the address-space cap
	}
	if ph.Race {
		cmd.Env = append(cmd.Env, fmt.Sprintf("GORACE=halt_on_error=0 log_path=%s/race-%s-%d", workDir, ph.Name, shard))
	}
	o := shardOutcome{phase: ph.Name, shard: shard, lastIdx: -1}
	if err := cmd.Start(); err != nil {
		o.crashed = true
		o.stderr = err.Error()
		return o
	}
	done := make(chan error, 1)
	go func() { done <- cmd.Wait() }()
	var err error
	select {
	case err = <-done:
	case <-time.After(timeout):
		o.timedOut = true
		cmd.Process.Signal(syscall.SIGQUIT)
		select {
		case err = <-done:
		case <-time.After(10 * time.Second):
			cmd.Process.Kill()
			err = <-done
		}
	}
	ef.Close()
	if err != nil {
		if ee, ok := err.(*exec.ExitError); ok {
			o.exit = ee.ExitCode()
		} else {
			o.exit = -1
		}
	}
	if b, e := os.ReadFile(logFile); e == nil && len(b) >= 8 {
		o.lastIdx = int64(binary.LittleEndian.Uint64(b))
	}
	if b, e := os.ReadFile(outFile); e == nil {
		var r Result
		if json.Unmarshal(b, &r) == nil {
			o.res = &r
		}
	}
	if o.res == nil || !o.res.Done {
		if !o.timedOut {
			o.crashed = true
		}
		if b, e := os.ReadFile(errFile); e == nil {
			if len(b) > 6000 {
				b = append(b[:3000], b[len(b)-3000:]...)
			}
			o.stderr = string(b)
		}
	}
	return o
}

// loadKnown reads /verif/known_findings.txt.  Lines:
//
//	known: property=<ID> sig=<signature> <what fails> | witness=<input>
//	fixed: property=<ID> <commit> <what failed> | witness=<input>
//
// Only "known:" lines can downgrade a discrepancy, and only one whose
// signature (call site + input predicate + exact failure, computed by the
// monitor) matches exactly.  The file is never written at run time.
func loadKnown() []knownEntry {
	f, err := os.Open(filepath.Join(verifDir, "known_findings.txt"))
	if err != nil {
		return nil
	}
	defer f.Close()
	var out []knownEntry
	sc := bufio.NewScanner(f)
	sc.Buffer(make([]byte, 1<<20), 1<<20)
	for sc.Scan() {
		line := strings.TrimSpace(sc.Text())
		var k knownEntry
		switch {
		case strings.HasPrefix(line, "known:"):
			k.Status = "known"
			line = strings.TrimSpace(line[len("known:"):])
		case strings.HasPrefix(line, "fixed:"):
			k.Status = "fixed"
			line = strings.TrimSpace(line[len("fixed:"):])
		default:
			continue
		}
		for _, f := range strings.Fields(line) {
			if strings.HasPrefix(f, "property=") && k.Property == "" {
				k.Property = f[len("property="):]
			} else if strings.HasPrefix(f, "sig=") && k.Sig == "" {
				k.Sig = f[len("sig="):]
			}
		}
		k.What = line
		out = append(out, k)
	}
	return out
}

func writeReplay(prop string, v Violation, tier string, seed int64, phase string) string {
	dir := filepath.Join(verifDir, "replays")
	if scratchRepo {
		dir = filepath.Join(verifDir, ".work", "scratch-replays")
	}
	os.MkdirAll(dir, 0o755)
	h := sha1.Sum([]byte(v.Sig + fmt.Sprint(v.Idx, seed, tier)))
	p := filepath.Join(dir, fmt.Sprintf("%s-%x.json", prop, h[:5]))
	doc := map[string]interface{}{"property": prop, "tier": tier, "seed": seed, "phase": phase, "idx": v.Idx, "sig": v.Sig, "detail": v.Detail, "case": v.Case,
		"replay_cmd": fmt.Sprintf("./check.sh %s replay %s", prop, p)}
	b, _ := json.MarshalIndent(doc, "", " ")
	os.WriteFile(p, b, 0o644)
	return p
}

func main() {
	if len(os.Args) < 3 {
		fatalf(2, "usage: vrun <ID> <quick|thorough|replay> [replay-file]")
	}
	id, tier := os.Args[1], os.Args[2]
	spec, ok := specs[id]
	if !ok {
		fatalf(2, "unknown property %s", id)
	}
	verifDir = os.Getenv("VERIF_DIR")
	if verifDir == "" {
		verifDir = "/verif"
	}
	repoDir = os.Getenv("VERIF_REPO")
	if repoDir == "" {
		repoDir = "/repo"
	}
	scratchRepo = repoDir != "/repo"
	seed := int64(1)
	if s := os.Getenv("VERIF_SEED"); s != "" {
		if v, err := strconv.ParseInt(s, 10, 64); err == nil {
			seed = v
		}
	}
	var err error
	workDir, err = os.MkdirTemp(filepath.Join(verifDir, ".work"), "run-"+id+"-")
	if err != nil {
		os.MkdirAll(filepath.Join(verifDir, ".work"), 0o755)
		workDir, err = os.MkdirTemp(filepath.Join(verifDir, ".work"), "run-"+id+"-")
		if err != nil {
			fatalf(2, "cannot create work dir: %v", err)
		}
	}
	keepWork := os.Getenv("VERIF_KEEP") != ""
	defer func() {
		if !keepWork {
			os.RemoveAll(workDir)
		}
	}()

	if tier == "replay" {
		if len(os.Args) < 4 {
			fatalf(2, "replay needs a file")
		}
		code := replay(spec, os.Args[3])
		if !keepWork {
			os.RemoveAll(workDir)
		}
		os.Exit(code)
	}
	if tier != "quick" && tier != "thorough" {
		fatalf(2, "tier must be quick or thorough")
	}
	start := time.Now()

	var extraEnv []string
	if spec.NeedCLI {
		cli, err := buildCLI()
		if err != nil {
			fmt.Printf("BUILD-FAILED cmd/gmars: %v\n", err)
			os.RemoveAll(workDir)
			os.Exit(2)
		}
		extraEnv = append(extraEnv, "GMARS_BIN="+cli)
	}
	extraEnv = append(extraEnv, "VERIF_REPO_DIR="+repoDir, "VERIF_WORK="+workDir)

	bins := map[bool]string{}
	for _, ph := range spec.Phases {
		if ph.Tier != "" && ph.Tier != tier {
			continue
		}
		if _, ok := bins[ph.Race]; !ok {
			b, err := buildWorker(ph.Race)
			if err != nil {
				fmt.Printf("BUILD-FAILED worker (race=%v): %v\n", ph.Race, err)
				os.RemoveAll(workDir)
				os.Exit(2)
			}
			bins[ph.Race] = b
		}
	}

	timeout := 15 * time.Minute
	if tier == "thorough" {
		timeout = 90 * time.Minute
	}
	ncpu := runtime.NumCPU()
	var outcomes []shardOutcome
	for _, ph := range spec.Phases {
		if ph.Tier != "" && ph.Tier != tier {
			continue
		}
		n := ph.Shards
		if n <= 0 {
			n = ncpu
		}
		var wg sync.WaitGroup
		var mu sync.Mutex
		for i := 0; i < n; i++ {
			wg.Add(1)
			go func(i int) {
				defer wg.Done()
				o := runShard(bins[ph.Race], spec, ph, tier, seed, i, n, extraEnv, timeout)
				mu.Lock()
				outcomes = append(outcomes, o)
				mu.Unlock()
			}(i)
		}
		wg.Wait()
	}

	// ---- merge
	known := loadKnown()
	merged := Result{Prop: id, Counters: map[string]int64{}}
	sets := map[string]map[uint64]struct{}{}
	var violations []struct {
		v     Violation
		phase string
	}
	var inconclusive []string
	var harnessFailures []string
	knownSeen := map[string]Violation{}
	sort.Slice(outcomes, func(i, j int) bool {
		if outcomes[i].phase != outcomes[j].phase {
			return outcomes[i].phase < outcomes[j].phase
		}
		return outcomes[i].shard < outcomes[j].shard
	})
	for _, o := range outcomes {
		if o.timedOut {
			inconclusive = append(inconclusive, fmt.Sprintf("phase %s shard %d: wall-clock watchdog fired after %v at case idx %d (not a verdict)", o.phase, o.shard, timeout, o.lastIdx))
		} else if o.crashed && !strings.Contains(o.stderr, "github.com/bobertlo/gmars.") {
			// the worker died without any gmars frame on the failing stack: a defect of the harness, not a verdict
			harnessFailures = append(harnessFailures, fmt.Sprintf("phase %s shard %d died at case idx %d (exit %d) with no gmars frame on the stack: %s", o.phase, o.shard, o.lastIdx, o.exit, oneLine(o.stderr)))
		} else if o.crashed {
			cs, _ := json.Marshal(map[string]interface{}{"last_logged_case_idx": o.lastIdx, "exit": o.exit, "stderr": o.stderr})
			violations = append(violations, struct {
				v     Violation
				phase string
			}{Violation{Sig: id + ":fatal:" + fatalSite(o.stderr), Detail: "worker process died with a fatal runtime error while running this case", Idx: o.lastIdx, Case: cs}, o.phase})
		}
		r := o.res
		if r == nil {
			continue
		}
		merged.Evaluations += r.Evaluations
		for k, v := range r.Counters {
			if strings.HasPrefix(k, "max_") {
				if v > merged.Counters[k] {
					merged.Counters[k] = v
				}
			} else {
				merged.Counters[k] += v
			}
		}
		for name, l := range r.Sets {
			m := sets[name]
			if m == nil {
				m = map[uint64]struct{}{}
				sets[name] = m
			}
			for _, k := range l {
				m[k] = struct{}{}
			}
		}
		if len(merged.Samples) < 4 {
			for _, s := range r.Samples {
				if len(merged.Samples) < 4 {
					merged.Samples = append(merged.Samples, s)
				}
			}
		}
		for _, v := range r.Violations {
			violations = append(violations, struct {
				v     Violation
				phase string
			}{v, o.phase})
		}
		for _, v := range r.Known {
			listed := false
			for _, k := range known {
				if k.Status == "known" && k.Property == id && k.Sig == v.Sig {
					listed = true
				}
			}
			if listed {
				if _, ok := knownSeen[v.Sig]; !ok {
					knownSeen[v.Sig] = v
				}
			} else {
				violations = append(violations, struct {
					v     Violation
					phase string
				}{v, o.phase})
			}
		}
		inconclusive = append(inconclusive, r.Inconclusive...)
	}

	// race logs
	raceReports := 0
	if files, _ := filepath.Glob(filepath.Join(workDir, "race-*")); len(files) > 0 {
		seen := map[string]bool{}
		for _, f := range files {
			b, _ := os.ReadFile(f)
			for _, blk := range splitRaceReports(string(b)) {
				key := raceKey(blk)
				if seen[key] {
					continue
				}
				seen[key] = true
				raceReports++
				cs, _ := json.Marshal(map[string]string{"race_report": blk})
				violations = append(violations, struct {
					v     Violation
					phase string
				}{Violation{Sig: id + ":race:" + key, Detail: "the Go race detector reported a data race", Idx: -1, Case: cs}, "race"})
			}
		}
	}
	merged.Counters["race_reports_distinct"] = int64(raceReports)

	// dedupe violations by signature
	seenSig := map[string]bool{}
	var uniq []struct {
		v     Violation
		phase string
	}
	for _, v := range violations {
		if !seenSig[v.v.Sig] {
			seenSig[v.v.Sig] = true
			uniq = append(uniq, v)
		}
	}

	distinct := len(sets["distinct_nontrivial"])
	wall := time.Since(start).Seconds()

	// ---- evidence
	cov := map[string]interface{}{
		"evaluations":         merged.Evaluations,
		"distinct_nontrivial": distinct,
		"rule":                spec.Rule,
		"samples":             merged.Samples,
		"observed":            merged.Counters,
		"exhaustive":          false,
	}
	setSizes := map[string]int{}
	for name, m := range sets {
		if name != "distinct_nontrivial" {
			setSizes[name] = len(m)
		}
	}
	cov["distinct_sets"] = setSizes
	if hookMissing && usesHook[id] {
		inconclusive = append(inconclusive, "the verif-tagged hook file does not compile against this tree: internal-state invariants were not evaluated (the API-level monitors were)")
	}
	cov["inconclusive"] = inconclusive
	var ks []string
	for s := range knownSeen {
		ks = append(ks, s)
	}
	sort.Strings(ks)
	cov["known_findings_seen"] = ks
	var vs []string
	for _, v := range uniq {
		vs = append(vs, v.v.Sig)
	}
	cov["violation_signatures"] = vs
	cov["verdict"] = "held on what was observed"
	if len(uniq) > 0 {
		cov["verdict"] = "violated"
	} else if len(inconclusive) > 0 {
		cov["verdict"] = "inconclusive in part"
	}
	ev := map[string]interface{}{
		"property_id": id,
		"tier":        tier,
		"seed":        seed,
		"level":       "exploration",
		"coverage":    cov,
		"assumptions": spec.Assumptions,
		"wall_s":      wall,
		"violations":  len(uniq),
	}
	evDir := filepath.Join(verifDir, "evidence")
	if scratchRepo {
		// a run against a scratch copy (mutation self-test) must not overwrite the evidence of /repo
		evDir = filepath.Join(verifDir, ".work", "scratch-evidence")
	}
	os.MkdirAll(evDir, 0o755)
	eb, _ := json.MarshalIndent(ev, "", " ")
	os.WriteFile(filepath.Join(evDir, id+".json"), eb, 0o644)

	// ---- report
	fmt.Printf("%s %s seed=%d: %d cases, %d distinct non-trivial, %.1fs\n", id, tier, seed, merged.Evaluations, distinct, wall)
	var ckeys []string
	for k := range merged.Counters {
		ckeys = append(ckeys, k)
	}
	sort.Strings(ckeys)
	var sb strings.Builder
	for _, k := range ckeys {
		fmt.Fprintf(&sb, " %s=%d", k, merged.Counters[k])
	}
	for k, v := range setSizes {
		fmt.Fprintf(&sb, " |%s|=%d", k, v)
	}
	fmt.Printf("observed:%s\n", sb.String())
	for _, s := range ks {
		v := knownSeen[s]
		fmt.Printf("KNOWN-FINDING: property=%s %s -- %s\n", id, s, oneLine(v.Detail))
	}
	for _, m := range inconclusive {
		fmt.Printf("INCONCLUSIVE: property=%s %s\n", id, m)
	}
	for _, v := range uniq {
		p := writeReplay(id, v.v, tier, seed, v.phase)
		fmt.Printf("VIOLATION property=%s replay=%s\n", id, p)
		fmt.Printf("  sig=%s\n  %s\n", v.v.Sig, oneLine(v.v.Detail))
	}
	if len(uniq) > 0 {
		if !keepWork {
			os.RemoveAll(workDir)
		}
		os.Exit(1)
	}
	if len(harnessFailures) > 0 {
		for i, h := range harnessFailures {
			if i >= 2 {
				fmt.Printf("HARNESS-FAILURE: property=%s ... and %d more shards\n", id, len(harnessFailures)-i)
				break
			}
			fmt.Printf("HARNESS-FAILURE: property=%s %s\n", id, h)
		}
		if !keepWork {
			os.RemoveAll(workDir)
		}
		os.Exit(2)
	}
	floor := spec.Floor[tier]
	if len(merged.Samples) == 0 || distinct < floor || distinct < 2 {
		fmt.Printf("INCONCLUSIVE: property=%s only %d distinct non-trivial cases observed (floor %d): the check did not observe enough to decide\n", id, distinct, floor)
		if !keepWork {
			os.RemoveAll(workDir)
		}
		os.Exit(3)
	}
	fmt.Printf("HELD property=%s on everything observed\n", id)
}

// properties whose monitors call the internal-invariant hook
var usesHook = map[string]bool{"C01": true, "C02": true, "C04": true, "C13": true}

func oneLine(s string) string {
	s = strings.ReplaceAll(s, "\n", " / ")
	if len(s) > 600 {
		s = s[:600] + "..."
	}
	return s
}

func fatalSite(stderr string) string {
	for _, line := range strings.Split(stderr, "\n") {
		if strings.HasPrefix(line, "fatal error:") || strings.HasPrefix(line, "panic:") {
			return strings.TrimSpace(line)
		}
	}
	return "unknown"
}

func splitRaceReports(s string) []string {
	var out []string
	parts := strings.Split(s, "==================")
	for _, p := range parts {
		if strings.Contains(p, "WARNING: DATA RACE") {
			out = append(out, strings.TrimSpace(p))
		}
	}
	return out
}

// raceKey dedupes a race report by the first gmars function (or, failing that, the top
// function) of each of its two access stacks, line numbers stripped.
func raceKey(blk string) string {
	var fns []string
	lines := strings.Split(blk, "\n")
	for i, l := range lines {
		t := strings.TrimSpace(l)
		if !(strings.HasPrefix(t, "Write at") || strings.HasPrefix(t, "Read at") || strings.HasPrefix(t, "Previous write at") || strings.HasPrefix(t, "Previous read at")) {
			continue
		}
		top, gm := "", ""
		for k := i + 1; k < len(lines); k++ {
			fn := strings.TrimSpace(lines[k])
			if fn == "" {
				break
			}
			if strings.HasPrefix(fn, "/") || strings.HasPrefix(fn, "Goroutine") {
				continue // file:line rows
			}
			if j := strings.Index(fn, "("); j > 0 && !strings.HasPrefix(fn, "github.com/bobertlo/gmars.(") {
				fn = fn[:j]
			} else if j := strings.LastIndex(fn, "("); j > 0 {
				fn = fn[:j]
			}
			if top == "" {
				top = fn
			}
			if gm == "" && strings.Contains(fn, "bobertlo/gmars") {
				gm = strings.TrimPrefix(fn, "github.com/bobertlo/gmars.")
			}
		}
		if gm != "" {
			fns = append(fns, gm)
		} else {
			fns = append(fns, top)
		}
	}
	sort.Strings(fns)
	return strings.Join(fns, "+")
}

func replay(spec *propSpec, path string) int {
	b, err := os.ReadFile(path)
	if err != nil {
		fatalf(2, "cannot read replay file: %v", err)
	}
	var doc struct {
		Property string `json:"property"`
		Tier     string `json:"tier"`
		Seed     int64  `json:"seed"`
		Phase    string `json:"phase"`
		Idx      int64  `json:"idx"`
		Sig      string `json:"sig"`
	}
	if err := json.Unmarshal(b, &doc); err != nil {
		fatalf(2, "bad replay file: %v", err)
	}
	if doc.Idx < 0 {
		fmt.Printf("this witness (%s) is not a single case; its content is in the file itself\n", doc.Sig)
		return 0
	}
	race := false
	for _, ph := range spec.Phases {
		if ph.Name == doc.Phase {
			race = ph.Race
		}
	}
	var extraEnv []string
	if spec.NeedCLI {
		cli, err := buildCLI()
		if err != nil {
			fatalf(2, "BUILD-FAILED cmd/gmars: %v", err)
		}
		extraEnv = append(extraEnv, "GMARS_BIN="+cli)
	}
	extraEnv = append(extraEnv, "VERIF_REPO_DIR="+repoDir, "VERIF_WORK="+workDir)
	bin, err := buildWorker(race)
	if err != nil {
		fatalf(2, "BUILD-FAILED: %v", err)
	}
	out := filepath.Join(workDir, "replay.json")
	cmd := exec.Command(bin, "-prop", doc.Property, "-tier", doc.Tier, "-seed", strconv.FormatInt(doc.Seed, 10), "-only", strconv.FormatInt(doc.Idx, 10), "-phase", doc.Phase, "-out", out, "-v")
	cmd.Dir = workDir
	cmd.Env = append(os.Environ(), extraEnv...)
	var buf bytes.Buffer
	cmd.Stdout = &buf
	cmd.Stderr = &buf
	runErr := cmd.Run()
	fmt.Print(buf.String())
	var r Result
	if rb, e := os.ReadFile(out); e == nil {
		json.Unmarshal(rb, &r)
	}
	if runErr != nil || !r.Done {
		fmt.Printf("replay: worker died (%v): the case still crashes the process\nVIOLATION property=%s replay=%s\n", runErr, doc.Property, path)
		return 1
	}
	if len(r.Violations) > 0 || len(r.Known) > 0 {
		for _, v := range append(r.Violations, r.Known...) {
			fmt.Printf("replayed: sig=%s\n  %s\n", v.Sig, v.Detail)
		}
		fmt.Printf("VIOLATION property=%s replay=%s\n", doc.Property, path)
		return 1
	}
	fmt.Printf("replay of idx %d: no violation on the current tree\n", doc.Idx)
	return 0
}
