#!/bin/bash
# usage: ./check.sh <ID> <quick|thorough>          run a check (rebuilds the worker from /repo's working tree)
#        ./check.sh <ID> replay <replay-file>      re-run one recorded case
set -u
cd "$(dirname "$0")"
export GOFLAGS=-mod=mod GOPROXY=off GOSUMDB=off GOTOOLCHAIN=local
export VERIF_DIR="$PWD"
if [ ! -x bin/vrun ] || [ -n "$(find cmd/vrun -newer bin/vrun -name '*.go' 2>/dev/null)" ]; then
  ./setup.sh >/dev/null 2>&1 || { echo "BUILD-FAILED vrun"; exit 2; }
fi
exec bin/vrun "$@"
