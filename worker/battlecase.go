package main

import (
	"fmt"

	g "github.com/bobertlo/gmars"

	"verif/ref/mars"
)

type BWarrior struct {
	Code       []mars.Insn `json:"-"`
	CodeText   []string    `json:"code"`
	Start      int         `json:"start"`
	Off        int         `json:"off"`
	NeverSpawn bool        `json:"never_spawned,omitempty"`
}

// BattleCase is a whole battle: configuration, warriors and placements.
type BattleCase struct {
	Mode, Len     int // rule-set mode and maximum length: the simulator must not care
	M, P, C, R, W int
	HugeC         uint64 `json:",omitempty"` // when non-zero: the real cycle limit (>= 2^32); C then only bounds the reference
	Warriors      []*BWarrior
}

func (bc *BattleCase) describe() *BattleCase {
	for _, w := range bc.Warriors {
		w.CodeText = coreStr(w.Code)
	}
	return bc
}

// weighted opcode choice for "lively hostile" code
var livelyOps = []mars.Op{mars.SPL, mars.SPL, mars.SPL, mars.MOV, mars.MOV, mars.MOV, mars.MOV, mars.JMP, mars.JMP, mars.DJN, mars.DJN,
	mars.ADD, mars.SUB, mars.MUL, mars.DIV, mars.MOD, mars.JMZ, mars.JMN, mars.CMP, mars.SEQ, mars.SNE, mars.SLT, mars.NOP, mars.DAT, mars.DAT}

func livelyInsn(r *Rng, m int) mars.Insn {
	var i mars.Insn
	if r.Chance(1, 5) {
		i = formInsn(r.Intn(numForms))
	} else {
		i.Op = livelyOps[r.Intn(len(livelyOps))]
		i.Mod = mars.Mod(r.Intn(int(mars.NumMods)))
		i.AM = mars.Mode(r.Intn(int(mars.NumModes)))
		i.BM = mars.Mode(r.Intn(int(mars.NumModes)))
	}
	f := func() int {
		switch r.Intn(4) {
		case 0:
			return r.Intn(m)
		case 1:
			return (m - 1 - r.Intn(min(m, 4))) % m
		default:
			return r.Intn(min(m, 5))
		}
	}
	i.A, i.B = f(), f()
	return i
}

// genBattle draws a battle with nw warriors (0 = random 1..maxW).
func genBattle(r *Rng, maxW int, limits bool) *BattleCase {
	bc := &BattleCase{}
	bc.M = r.Range(8, 48)
	if r.Chance(1, 10) {
		bc.M = r.Range(3, 8)
	}
	m := bc.M
	bc.P = r.Range(1, 8)
	if r.Chance(1, 12) {
		bc.P = m + r.Range(1, m) // more processes than cells
	}
	bc.C = r.Range(1, 300)
	if r.Chance(1, 4) {
		bc.C = r.Range(1, 12)
	}
	bc.R, bc.W = m, m
	if limits && r.Chance(1, 2) {
		bc.R, bc.W = r.Range(1, m), r.Range(1, m)
	}
	if r.Chance(1, 2) {
		bc.Mode = r.Intn(3)
	}
	if r.Chance(1, 3) {
		bc.Len = []int{1, m / 4, m / 2, m}[r.Intn(4)]
	}
	nw := r.Range(1, maxW)
	for i := 0; i < nw; i++ {
		l := r.Range(1, min(m, 10))
		if r.Chance(1, 40) {
			l = r.Range(m+1, 3*m+2) // longer than the core: AddWarrior accepts any length, loading wraps and overwrites
		}
		w := &BWarrior{Code: make([]mars.Insn, l)}
		for j := range w.Code {
			w.Code[j] = livelyInsn(r, m)
		}
		// an imp or a loop keeps some warriors alive for a long time
		if r.Chance(1, 6) {
			w.Code[0] = mars.Insn{Op: mars.MOV, Mod: mars.MI, AM: mars.DIR, BM: mars.DIR, A: 0, B: 1}
		}
		if r.Chance(1, 8) {
			// blank instructions (what an empty cell holds) at the end or the start of the code: loading them over
			// another warrior, or over the warrior's own wrapped head, must overwrite what is there
			for k := 0; k < 1+r.Intn(3) && k < l; k++ {
				if r.Chance(1, 4) {
					w.Code[k] = mars.Empty
				} else {
					w.Code[l-1-k] = mars.Empty
				}
			}
		}
		w.Start = r.Intn(l)
		w.Off = r.Intn(m)
		if r.Chance(1, 60) {
			w.Code = w.Code[:0] // a warrior without code: spawning it only queues a task
			w.Start = 0
		}
		bc.Warriors = append(bc.Warriors, w)
	}
	return bc
}

func (bc *BattleCase) config() g.SimulatorConfig {
	cycles := g.Address(bc.C)
	if bc.HugeC != 0 {
		cycles = g.Address(bc.HugeC)
	}
	return g.SimulatorConfig{Mode: []g.SimulatorMode{g.ICWS94, g.ICWS88, g.NOP94}[bc.Mode%3], CoreSize: g.Address(bc.M), Processes: g.Address(bc.P), Cycles: cycles,
		ReadLimit: g.Address(bc.R), WriteLimit: g.Address(bc.W), Length: g.Address(bc.Len), Distance: 0}
}

// newRef builds the reference battle with all warriors added and spawned in order.
func (bc *BattleCase) newRef(shift int) *mars.Battle {
	b := mars.NewBattle(bc.M, bc.P, bc.C, bc.R, bc.W)
	for _, w := range bc.Warriors {
		b.Add(mars.WarriorCode{Code: w.Code, Start: w.Start})
	}
	for i, w := range bc.Warriors {
		b.Spawn(i, w.Off+shift)
	}
	return b
}

// newReal builds the real simulator with all warriors added and spawned in order.
func (bc *BattleCase) newReal(shift int, reps ...g.Reporter) (g.ReportingSimulator, []g.Warrior, error) {
	s, err := g.NewReportingSimulator(bc.config())
	if err != nil {
		return nil, nil, err
	}
	for _, r := range reps {
		s.AddReporter(r)
	}
	var ws []g.Warrior
	for _, w := range bc.Warriors {
		gw, err := s.AddWarrior(&g.WarriorData{Name: "w", Code: toGCode(w.Code), Start: w.Start})
		if err != nil {
			return nil, nil, err
		}
		ws = append(ws, gw)
	}
	for i, w := range bc.Warriors {
		if err := s.SpawnWarrior(i, g.Address(w.Off+shift)); err != nil {
			return nil, nil, fmt.Errorf("spawn %d: %v", i, err)
		}
	}
	return s, ws, nil
}

// apiDecided applies the documented stop rule to API-observable values.
func apiDecided(s g.Simulator) bool {
	n, living := s.WarriorCount(), s.WarriorLivingCount()
	switch {
	case n == 0:
		return true
	case uint64(s.CycleCount()) >= uint64(s.MaxCycles()): // the limit is an unsigned 64-bit number
		return true
	case n == 1:
		return living == 0
	default:
		return living <= 1
	}
}

// compareBattle compares every API-observable part of the state with the reference.
func compareBattle(s g.Simulator, ws []g.Warrior, ref *mars.Battle, rot int) (bool, string) {
	m := ref.M
	if s.CycleCount() != ref.Cycle {
		return false, fmt.Sprintf("CycleCount: gmars %d, reference %d", s.CycleCount(), ref.Cycle)
	}
	if s.WarriorLivingCount() != ref.Living {
		return false, fmt.Sprintf("WarriorLivingCount: gmars %d, reference %d", s.WarriorLivingCount(), ref.Living)
	}
	for i, w := range ws {
		rw := ref.W[i]
		if w.Alive() != (rw.State == mars.Alive) {
			return false, fmt.Sprintf("warrior %d Alive: gmars %v, reference %v", i, w.Alive(), rw.State == mars.Alive)
		}
		q := w.Queue()
		if len(q) != len(rw.Queue) {
			return false, fmt.Sprintf("warrior %d queue: gmars %v, reference %v (rotation %d)", i, q, rw.Queue, rot)
		}
		for k := range q {
			if int(q[k]) != (rw.Queue[k]+rot)%m {
				return false, fmt.Sprintf("warrior %d queue: gmars %v, reference %v (rotation %d)", i, q, rw.Queue, rot)
			}
		}
	}
	for a := 0; a < m; a++ {
		got, ok := fromG(s.GetMem(g.Address((a + rot) % m)))
		if !ok || got != ref.Core[a] {
			return false, fmt.Sprintf("cell %d: gmars %v, reference %s", (a+rot)%m, s.GetMem(g.Address((a+rot)%m)), insnStr(ref.Core[a]))
		}
	}
	return true, ""
}

// popRecorder is a Reporter that records the executed (warrior, pc) pairs.
type popRecorder struct {
	pops [][2]int
}

func (p *popRecorder) Report(r g.Report) {
	if r.Type == g.WarriorTaskPop {
		p.pops = append(p.pops, [2]int{r.WarriorIndex, int(r.Address)})
	}
}
