package main

import (
	"fmt"
	"os"
	"runtime"
	"runtime/debug"
	"runtime/metrics"
	"strconv"
	"strings"
	"sync/atomic"
	"time"

	g "github.com/bobertlo/gmars"

	"verif/ref/asm"
)

func init() {
	props["C05"] = runC05
	props["C06"] = runC06
}

// ---------------------------------------------------------------------------
// memory monitor: a sidecar goroutine samples the resident set size

var rssMaxKB atomic.Int64

func startRSSMonitor() {
	go func() {
		for {
			if b, err := os.ReadFile("/proc/self/statm"); err == nil {
				f := strings.Fields(string(b))
				if len(f) > 1 {
					if pages, err := strconv.ParseInt(f[1], 10, 64); err == nil {
						kb := pages * int64(os.Getpagesize()) / 1024
						if kb > rssMaxKB.Load() {
							rssMaxKB.Store(kb)
						}
					}
				}
			}
			time.Sleep(50 * time.Millisecond)
		}
	}()
}

// heapAllocated returns the cumulative number of bytes allocated on the heap (cheap: no stop-the-world).
var allocSample = []metrics.Sample{{Name: "/gc/heap/allocs:bytes"}}

func heapAllocated() uint64 {
	metrics.Read(allocSample)
	if allocSample[0].Value.Kind() == metrics.KindUint64 {
		return allocSample[0].Value.Uint64()
	}
	return 0
}

// per-call allocation cap: 256 MiB plus 4 KiB per input byte
const allocCapBase = 256 << 20

// ---------------------------------------------------------------------------
// goroutine-leak monitor

type leakMon struct {
	base int // goroutines that exist legitimately (main, monitors)
	seen map[string]bool
}

// check is called after a gmars call returned.  A goroutine with a gmars
// frame that is still blocked in a channel operation after its creator
// returned can never run again (nobody else holds the channel): that is a
// logical verdict, not a timing one.  Goroutines that are merely still
// running are given time to finish first.
func (l *leakMon) check() (leaked []string) {
	if runtime.NumGoroutine() <= l.base {
		return nil
	}
	for i := 0; i < 200; i++ {
		runtime.Gosched()
		if runtime.NumGoroutine() <= l.base {
			return nil
		}
		if i > 20 {
			time.Sleep(time.Duration(i) * 20 * time.Microsecond)
		}
		if i%10 == 9 {
			all := gmarsGoroutines()
			blocked := 0
			for _, gr := range all {
				if strings.Contains(gr, "[chan send") || strings.Contains(gr, "[chan receive") || strings.Contains(gr, "[select") {
					blocked++
				}
			}
			if blocked == len(all) && blocked > 0 && i >= 19 {
				break
			}
		}
	}
	for _, gr := range gmarsGoroutines() {
		if strings.Contains(gr, "[chan send") || strings.Contains(gr, "[chan receive") || strings.Contains(gr, "[select") {
			leaked = append(leaked, gr)
		}
	}
	// the leaked goroutines stay for the rest of the process: they are part of the base from now on
	l.base = runtime.NumGoroutine()
	return leaked
}

func leakSite(gr string) string {
	if m := panicSiteRe.FindStringSubmatch(gr); m != nil {
		st := "blocked"
		if strings.Contains(gr, "chan send") {
			st = "chan-send"
		} else if strings.Contains(gr, "chan receive") {
			st = "chan-receive"
		}
		return st + ":" + m[1]
	}
	return "unknown"
}

// ---------------------------------------------------------------------------

var modes3 = []g.SimulatorMode{g.ICWS88, g.NOP94, g.ICWS94}

func randFullConfig(r *Rng) (g.SimulatorConfig, asm.Config) {
	mode := modes3[r.Intn(3)]
	d := asm.D94
	if mode == g.ICWS88 {
		d = asm.D88
	}
	ac := randAsmConfig(r, d)
	if r.Chance(1, 25) {
		// core sizes around the widths of the integer types involved (a core size is an unsigned 64-bit number;
		// those up to 2^63-1 are representable in every signed intermediate)
		ac.CoreSize = []int{1<<31 - 1, 1 << 31, 1<<32 + 1, 1 << 62, 1<<63 - 1<<31 + 5, 1<<63 - 1<<30, 1<<63 - 2, 1<<63 - 1}[r.Intn(8)]
		if ac.Length > 300 {
			ac.Length = 100
		}
		ac.Distance = 100
	}
	if r.Chance(1, 5) {
		ac.Length = []int{0, 1, 5}[r.Intn(3)]
		if ac.Length > ac.CoreSize {
			ac.Length = ac.CoreSize
		}
	} else if r.Chance(1, 12) {
		// the largest lengths Validate accepts: the cost of a call must follow the input, not the configuration
		ac.Length = []int{ac.CoreSize, ac.CoreSize / 2, ac.CoreSize - 1}[r.Intn(3)]
		ac.Distance = 0
	}
	return gcfg(ac, mode), ac
}

func isZeroWarrior(wd g.WarriorData) bool {
	return wd.Name == "" && wd.Author == "" && wd.Strategy == "" && wd.Code == nil && wd.Start == 0
}

func runC05(c *Ctx) {
	n := int64(240000)
	if c.Thorough() {
		n = 12000000
	}
	budget := 6 * time.Second
	if c.Race {
		n /= 8
		budget = 60 * time.Second
	}
	startRSSMonitor()
	// goroutine stacks are capped at 256 MiB (Go's default is 1 GiB): recursion that grows with the number of input
	// tokens dies early, as the "fatal error: stack overflow" it would be on a bigger input
	debug.SetMaxStack(256 << 20)
	tg := newTextGen()
	lm := &leakMon{seen: map[string]bool{}}
	// the monitors' own goroutines are started by the first guarded call
	c.Guarded(time.Second, "C05:warmup", nil, func() {})
	time.Sleep(5 * time.Millisecond)
	runPinned(c, "C05")
	lm.base = runtime.NumGoroutine()

	c.Cases(n, func(idx int64, r *Rng) {
		gc, ac := randFullConfig(r)
		text, class := tg.hostile(idx, r, ac.Dialect, ac)
		if asm.Legacy && strings.HasPrefix(text, "l0\nl1\nl2\n") {
			text = "mov 0, 1\n" // the many-labels input (repair 34)
		}
		cs := map[string]interface{}{"config": gc, "text": describeText(text), "class": class, "bytes": len(text)}
		// EQU values are spliced in as text: a definition that mentions earlier ones several times grows like a
		// product (known finding C05:equ-text-expansion).  Inputs whose EQU text would exceed twelve million tokens are not
		// run at all; smaller ones that trip the allocation cap are reported under that finding.
		equTokens := equTextExpansion(text)
		if equTokens > 100000 && class != "fixed" {
			// beyond the pinned witness of that finding such inputs are not run: they hang, exhaust memory or trip the
			// caps in ways that all mean the same thing
			c.Inc("skipped_equ_text_expansion_above_100000_tokens")
			c.res.Evaluations--
			return
		}
		if equTokens > 1.2e7 {
			c.Inc("skipped_equ_text_expansion_above_12e6_tokens")
			c.res.Evaluations--
			return
		}
		var wd g.WarriorData
		var err error
		var pm string
		cpu0 := cpuNow()
		a0 := heapAllocated()
		c.Guarded(budget, "C05:compile", cs, func() { wd, err, pm = compile(text, gc) })
		cpu := cpuNow() - cpu0
		alloc := heapAllocated() - a0
		c.Max("max_alloc_mib_per_call", int64(alloc>>20))
		if alloc > allocCapBase+uint64(len(text))*4096 {
			if equTokens > 100000 {
				// the memory this input took must not be charged to the inputs that follow
				debug.FreeOSMemory()
				rssMaxKB.Store(0)
				c.KnownHit("C05:equ-text-expansion:allocation-cap", fmt.Sprintf("EQU definitions that mention earlier ones several times expand as text to %.0f tokens: one call on %d bytes of input allocated %d MiB", equTokens, len(text), alloc>>20), cs)
				return
			}
			c.Violate("C05:allocation-cap", fmt.Sprintf("one CompileWarrior call on %d bytes of input allocated %d MiB (cap: 256 MiB + 4 KiB per input byte)", len(text), alloc>>20), cs)
			return
		}
		c.Inc("calls")
		c.Inc("class_" + class)
		c.Max("max_cpu_ms_per_call", cpu.Milliseconds())
		if len(text) > 0 {
			c.Max("max_cpu_us_per_input_byte", cpu.Microseconds()/int64(len(text)))
		}
		if pm != "" {
			c.Violate("C05:panic:"+panicSite(pm), pm, cs)
			// a panic may leave the producer goroutines behind as well: rebase
			lm.base = runtime.NumGoroutine()
			return
		}
		if err != nil {
			c.Inc("errors")
			if !isZeroWarrior(wd) {
				c.Violate("C05:error-and-warrior", fmt.Sprintf("an error (%v) was returned together with a non-empty warrior", err), cs)
				return
			}
		} else {
			c.Inc("successes")
			if wd.Code == nil {
				c.Violate("C05:neither", "neither an error nor a warrior (nil Code) was returned", cs)
				return
			}
		}
		if leaked := lm.check(); len(leaked) > 0 {
			c.Inc("goroutine_profiles_with_leak")
			site := leakSite(leaked[0])
			c.Violate("C05:goroutine-leak:"+site, fmt.Sprintf("CompileWarrior returned (err=%v) but left %d goroutine(s) blocked forever: %s", err, len(leaked), strings.Join(leaked, " || ")), cs)
			return
		}
		c.Inc("goroutine_checks_clean")
		rssCapKB := int64(2 << 20) // 2 GiB; the race detector multiplies every allocation: 6 GiB there
		if c.Race {
			rssCapKB = 6 << 20
		}
		if kb := rssMaxKB.Load(); kb > rssCapKB {
			c.Violate("C05:memory-cap", fmt.Sprintf("resident set size reached %d MiB (cap %d MiB) around this input", kb>>10, rssCapKB>>10), cs)
			return
		}
		// non-trivial: the input got past the lexer (reached the parser) or exercised the FOR expander
		low := strings.ToLower(text)
		hasFor := strings.Contains(low, "for")
		lexErr := err != nil && (strings.HasPrefix(err.Error(), "expected '") || strings.Contains(err.Error(), "no more tokens"))
		if !lexErr || hasFor {
			outcome := "ok"
			if err != nil {
				outcome = "err:" + errPrefix(err.Error())
			}
			c.Nontrivial(class + "|" + outcome)
			c.Inc("nontrivial_inputs")
		}
		if idx%3001 == 100 {
			c.Sample(cs)
		}
	})
	c.Max("max_rss_mib", rssMaxKB.Load()>>10)
}

// errPrefix strips line numbers and quoted parts from an error message.
func errPrefix(s string) string {
	var b strings.Builder
	inq := false
	for _, ch := range s {
		switch {
		case ch == '\'':
			inq = !inq
		case inq:
		case ch >= '0' && ch <= '9':
		default:
			b.WriteRune(ch)
		}
		if b.Len() > 40 {
			break
		}
	}
	return b.String()
}

// ---------------------------------------------------------------------------
// C06: predicate monitor on every accepted program

func checkAssembled(wd g.WarriorData, gc g.SimulatorConfig) string {
	m := gc.CoreSize
	n := len(wd.Code)
	if wd.Code == nil {
		return "nil-code: success with a nil Code"
	}
	if n == 0 {
		if wd.Start != 0 {
			return fmt.Sprintf("start: empty program with entry point %d", wd.Start)
		}
	} else if wd.Start < 0 || wd.Start >= n {
		return fmt.Sprintf("start: entry point %d outside the code of %d instructions", wd.Start, n)
	}
	if g.Address(n) > gc.Length {
		return fmt.Sprintf("length: %d instructions, configured maximum length %d", n, gc.Length)
	}
	for i, ins := range wd.Code {
		if ins.A >= m || ins.B >= m {
			return fmt.Sprintf("field: instruction %d has a field >= core size %d: %v", i, m, ins)
		}
		ri, ok := fromG(ins)
		if !ok {
			return fmt.Sprintf("enum: instruction %d has an opcode/modifier/mode outside the data model: %v", i, ins)
		}
		if gc.Mode == g.ICWS88 {
			md, legal := asm.Legal88(ri.Op, ri.AM, ri.BM)
			if !legal {
				return fmt.Sprintf("illegal88: instruction %d is not a legal ICWS'88 instruction: %s", i, insnStr(ri))
			}
			if md != ri.Mod {
				return fmt.Sprintf("modifier88: instruction %d carries a modifier other than the one ICWS'88 implies: %s", i, insnStr(ri))
			}
		}
	}
	return ""
}

// nearValid applies one targeted mutation to a valid program text.
func nearValid(r *Rng, text string, ninstr int, length int) (string, string) {
	lines := strings.Split(text, "\n")
	pick := func() int { return r.Intn(len(lines)) }
	switch r.Intn(9) {
	case 0: // a mode swapped to a '94-only one, or to another '88 mode (DAT $.., JMP #.., MOV ..,# are illegal in '88)
		for t := 0; t < 10; t++ {
			i := pick()
			for _, ch := range []string{"#", "$", "@", "<"} {
				if strings.Contains(lines[i], ch) && !strings.HasPrefix(strings.TrimSpace(lines[i]), ";") {
					if r.Bool() {
						lines[i] = strings.Replace(lines[i], ch, []string{"#", "$", "@", "<"}[r.Intn(4)], 1)
						return strings.Join(lines, "\n"), "mode->other-88-mode"
					}
					lines[i] = strings.Replace(lines[i], ch, []string{"*", "{", "}", ">"}[r.Intn(4)], 1)
					return strings.Join(lines, "\n"), "mode->94-only"
				}
			}
		}
		return text, "unchanged"
	case 1: // ORG moved to len, len+1, -1
		v := []int{ninstr, ninstr + 1, -1, ninstr - 1, 0}[r.Intn(5)]
		var out []string
		for _, l := range lines {
			t := strings.ToLower(strings.TrimSpace(l))
			if strings.HasPrefix(t, "org") || strings.HasPrefix(t, "end") {
				continue
			}
			out = append(out, l)
		}
		if r.Bool() {
			out = append([]string{fmt.Sprintf("org %d", v)}, out...)
		} else {
			out = append(out, fmt.Sprintf("end %d", v))
		}
		return strings.Join(out, "\n") + "\n", fmt.Sprintf("entry=len%+d", v-ninstr)
	case 2: // lines duplicated to exceed the maximum length
		if length > 2000 {
			return text, "unchanged" // a program of that size is not a near-valid mutation any more
		}
		var body []string
		for _, l := range lines {
			t := strings.ToLower(strings.TrimSpace(l))
			if t == "" || strings.HasPrefix(t, ";") || strings.HasPrefix(t, "org") || strings.HasPrefix(t, "end") || strings.Contains(t, "equ") || strings.Contains(t, "for") {
				continue
			}
			body = append(body, "dat 0, 0")
		}
		if len(body) == 0 {
			body = []string{"dat 0, 0"}
		}
		want := length + []int{-1, 0, 1, 2, 7}[r.Intn(5)]
		var out []string
		for len(out) < want {
			out = append(out, body[len(out)%len(body)])
		}
		return strings.Join(out, "\n") + "\n", fmt.Sprintf("length=max%+d", want-length)
	case 3: // opcode swapped to a '94-only one
		for t := 0; t < 10; t++ {
			i := pick()
			f := strings.Fields(lines[i])
			for k, w := range f {
				if _, ok := asm.OpByName(strings.SplitN(strings.TrimSuffix(w, ":"), ".", 2)[0]); ok {
					f[k] = []string{"mul", "div", "mod", "seq", "sne", "nop", "mov.i", "add.ab", "dat.f"}[r.Intn(9)]
					lines[i] = strings.Join(f, " ")
					return strings.Join(lines, "\n"), "opcode->94-only"
				}
			}
		}
		return text, "unchanged"
	case 4: // an operand mode forced to immediate (illegal for several '88 opcodes)
		for t := 0; t < 10; t++ {
			i := pick()
			if j := strings.Index(lines[i], ","); j > 0 && !strings.HasPrefix(strings.TrimSpace(lines[i]), ";") {
				if r.Bool() {
					lines[i] = lines[i][:j+1] + " #" + strings.TrimLeft(lines[i][j+1:], " \t$@<#*{}>")
				} else {
					f := strings.SplitN(lines[i], ",", 2)
					w := strings.Fields(f[0])
					if len(w) >= 2 {
						w[len(w)-1] = "#" + strings.TrimLeft(w[len(w)-1], "$@<#*{}>")
						lines[i] = strings.Join(w, " ") + "," + f[1]
					}
				}
				return strings.Join(lines, "\n"), "mode->immediate"
			}
		}
		return text, "unchanged"
	case 5: // a huge or negative literal
		for t := 0; t < 10; t++ {
			i := pick()
			f := strings.Fields(lines[i])
			for k := len(f) - 1; k > 0; k-- {
				if _, err := strconv.Atoi(strings.Trim(f[k], ",#$@<*{}>")); err == nil {
					f[k] = []string{"-1", "2147483647", "-2147483648", "99999", "-99999"}[r.Intn(5)]
					lines[i] = strings.Join(f, " ")
					return strings.Join(lines, "\n"), "literal->extreme"
				}
			}
		}
		return text, "unchanged"
	case 6:
		return mutateTokens(r, text), "token-mutated"
	case 7: // an EQU whose value starts with a mode character, used as an operand that has no mode of its own
		name := "qm"
		val := []string{"#1", "@2", "<3", "$1", "#0", "*1", ">2"}[r.Intn(7)]
		for t := 0; t < 10; t++ {
			i := pick()
			tl := strings.TrimSpace(lines[i])
			if tl == "" || strings.HasPrefix(tl, ";") || strings.Contains(strings.ToLower(tl), "equ") || strings.Contains(strings.ToLower(tl), "for") {
				continue
			}
			body := lines[i]
			cm := ""
			if k := strings.Index(body, ";"); k >= 0 {
				body, cm = body[:k], body[k:]
			}
			if k := strings.LastIndex(body, ","); k >= 0 {
				body = body[:k+1] + " " + name + " "
			} else if f := strings.Fields(body); len(f) >= 2 {
				f[len(f)-1] = name
				body = strings.Join(f, " ") + " "
			} else {
				continue
			}
			lines[i] = body + cm
			return name + " equ " + val + "\n" + strings.Join(lines, "\n"), "equ-with-mode"
		}
		return text, "unchanged"
	default:
		return text, "unchanged"
	}
}

func runC06(c *Ctx) {
	defer withDisturb(c)()
	runPinned(c, "C06")
	n := int64(240000)
	if c.Thorough() {
		n = 12000000
	}
	tg := newTextGen()
	c.Cases(n, func(idx int64, r *Rng) {
		gc, ac := randFullConfig(r)
		if r.Chance(1, 40) && !asm.Legacy {
			// a core size is an unsigned 64-bit number: sizes from 2^63 on (not representable as a signed int) are
			// configurations like any other for the structural predicate
			gc.CoreSize = g.Address([]uint64{1 << 63, 1<<63 + 1, 1<<63 + 5, 1<<64 - 10, 1<<64 - 1, 3 << 62}[r.Intn(6)])
			gc.ReadLimit, gc.WriteLimit = gc.CoreSize, gc.CoreSize
		}
		var text, class string
		if r.Chance(1, 2) {
			// near-valid mutation of a valid program
			var p *asm.Prog
			text, p = tg.validProgram(r, ac.Dialect, ac)
			ninstr := 0
			if mn, err := p.Meaning(); err == nil {
				ninstr = len(mn.Code)
			}
			var kind string
			text, kind = nearValid(r, text, ninstr, ac.Length)
			class = "near-valid:" + kind
		} else {
			text, class = tg.hostile(idx+1000, r, ac.Dialect, ac)
		}
		if estimateExpansion(text) > maxExpansion {
			c.res.Evaluations--
			return
		}
		cs := map[string]interface{}{"config": gc, "text": describeText(text), "class": class}
		var wd g.WarriorData
		var err error
		var pm string
		c.Guarded(6*time.Second, "C06:compile", cs, func() { wd, err, pm = compile(text, gc) })
		c.Inc("calls")
		if pm != "" {
			c.Violate("C06:panic:"+panicSite(pm), pm, cs)
			return
		}
		if err != nil {
			c.Inc("rejected")
			return
		}
		c.Inc("successes_checked")
		c.Count("instructions_checked", int64(len(wd.Code)))
		if d := checkAssembled(wd, gc); d != "" {
			c.Violate("C06:"+strings.SplitN(d, ":", 2)[0], d, cs)
			return
		}
		if len(wd.Code) > 0 && wd.Start == len(wd.Code)-1 {
			c.Inc("accepted_with_start_at_last_instruction")
		}
		if g.Address(len(wd.Code)) == gc.Length {
			c.Inc("accepted_at_exactly_max_length")
		}
		if gc.Mode == g.ICWS88 {
			c.Inc("successes_in_88_mode")
		}
		if class != "valid" && !strings.HasSuffix(class, "unchanged") && class != "repo-warrior" {
			c.Nontrivial(fmt.Sprintf("%d|%s|%d", gc.Mode, class, min(len(wd.Code), 6)))
			c.Inc("accepted_mutated_inputs")
		}
		if idx%3001 == 7 {
			c.Sample(cs)
		}
	})
}

// equTextExpansion returns the size (in tokens) of the largest EQU value of the text after textual substitution of
// the EQUs it mentions (the sum of the sizes of all values when they feed one another), +Inf for a cycle.
func equTextExpansion(text string) float64 {
	defs := map[string][]string{}
	for _, l := range strings.Split(text, "\n") {
		if k := strings.IndexByte(l, ';'); k >= 0 {
			l = l[:k]
		}
		fs := strings.FieldsFunc(l, func(r rune) bool {
			return !(r >= '0' && r <= '9' || r >= 'a' && r <= 'z' || r >= 'A' && r <= 'Z' || r == '_' || r == '.')
		})
		for k, f := range fs {
			if strings.EqualFold(f, "equ") {
				for _, name := range fs[:k] {
					defs[name] = fs[k+1:]
				}
				break
			}
		}
	}
	if len(defs) == 0 {
		return 0
	}
	memo := map[string]float64{}
	var size func(name string, depth int) float64
	size = func(name string, depth int) float64 {
		if v, ok := memo[name]; ok {
			return v
		}
		if depth > 5000 {
			return 1e18
		}
		memo[name] = 1e18 // a cycle
		n := 0.0
		for _, f := range defs[name] {
			if _, ok := defs[f]; ok {
				n += size(f, depth+1)
			} else {
				n += 2 // the token and the operator next to it
			}
			if n > 1e18 {
				n = 1e18
			}
		}
		memo[name] = n
		return n
	}
	total := 0.0
	for name := range defs {
		total += size(name, 0)
		if total > 1e18 {
			return 1e18
		}
	}
	return total
}
