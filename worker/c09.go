package main

import (
	"fmt"
	"strings"

	g "github.com/bobertlo/gmars"

	"verif/ref/asm"
	"verif/ref/mars"
)

func init() { props["C09"] = runC09 }

// all legal '88 (op, amode, bmode) combinations, from the independent table
var legal88Forms []mars.Insn

func init() {
	for op := mars.Op(0); op < mars.NumOps; op++ {
		for am := mars.Mode(0); am < mars.NumModes; am++ {
			for bm := mars.Mode(0); bm < mars.NumModes; bm++ {
				if md, ok := asm.Legal88(op, am, bm); ok {
					// SEQ is not an '88 mnemonic although it behaves like CMP
					if op == mars.SEQ || op == mars.SNE || op == mars.MUL || op == mars.DIV || op == mars.MOD || op == mars.NOP {
						continue
					}
					legal88Forms = append(legal88Forms, mars.Insn{Op: op, Mod: md, AM: am, BM: bm})
				}
			}
		}
	}
}

type lfCase struct {
	Config g.SimulatorConfig
	Text   string
	Want   []string
	Start  int
	Set    string `json:"perturbations"`
}

func genWarrior(r *Rng, idx int64, d asm.Dialect, m, maxLen int) ([]mars.Insn, int) {
	l := r.Range(1, maxLen)
	code := make([]mars.Insn, l)
	for j := range code {
		var ins mars.Insn
		if d == asm.D94 {
			f := r.Intn(numForms)
			if j == 0 {
				f = int(idx % int64(numForms)) // enumerate the forms
			}
			ins = formInsn(f)
		} else {
			f := r.Intn(len(legal88Forms))
			if j == 0 {
				f = int(idx % int64(len(legal88Forms)))
			}
			ins = legal88Forms[f]
		}
		fv := func() int {
			switch r.Intn(5) {
			case 0:
				return []int{0, 1, m / 2, m/2 + 1, m - 1, (m/2 - 1 + m%2) % m}[r.Intn(6)] % m
			case 1:
				return r.Intn(min(m, 10))
			default:
				return r.Intn(m)
			}
		}
		ins.A, ins.B = fv(), fv()
		if j > 0 && r.Chance(1, 5) {
			ins = code[j-1] // runs of identical instructions
		}
		code[j] = ins
	}
	if r.Chance(1, 8) {
		// the blank instruction (what an empty core cell holds) is an instruction like any other: warriors end,
		// start or consist of it
		blank := mars.Empty
		if d == asm.D88 {
			blank = mars.Insn{Op: mars.DAT, Mod: mars.MF, AM: mars.IMM, BM: mars.IMM}
		}
		for k := 0; k < 1+r.Intn(2) && k < l; k++ {
			if r.Chance(1, 4) {
				code[k] = blank
			} else {
				code[l-1-k] = blank
			}
		}
	}
	return code, r.Intn(l)
}

// heldResult is a result returned by an earlier call, kept together with a deep copy of what it was
type heldResult struct {
	got  g.WarriorData
	copy []g.Instruction
	who  string
}

func runC09(c *Ctx) {
	defer withDisturb(c)()
	runPinned(c, "C09")
	var held []heldResult
	n := int64(120000)
	if c.Thorough() {
		n = 8000000
	}
	c.Cases(n, func(idx int64, r *Rng) {
		d := asm.D94
		if idx%3 == 2 {
			d = asm.D88
		}
		m := []int{3, 7, 80, 800, 8000, 8192, 55440}[r.Intn(7)]
		if r.Chance(1, 25) {
			// neither reader allocates a core: sizes near 2^31, 2^32 and 2^62..2^63 are ordinary configurations for them
			m = []int{1<<31 - 1, 1 << 31, 1<<32 + 1, 1 << 40, 1<<62 + 2, 1<<63 - 25}[r.Intn(6)]
		}
		maxLen := []int{1, 5, 20, 100}[r.Intn(4)]
		if maxLen > m {
			maxLen = m
		}
		cfg := asm.Config{Dialect: d, CoreSize: m, Length: maxLen, Processes: 8, Distance: 0}
		if m > 1<<30 && r.Chance(1, 2) {
			// the maximum length is a limit, not a size: on a huge core it may be huge as well
			cfg.Length = []int{1 << 31, 1 << 40, 1 << 50, m / 2, m}[r.Intn(5)]
			if cfg.Length > m {
				cfg.Length = m
			}
		}
		gc := gcfg(cfg, []g.SimulatorMode{g.ICWS94, g.NOP94}[r.Intn(2)])
		code, start := genWarrior(r, idx, d, m, maxLen)
		spell := r.Intn(4)
		if m > 1<<29 {
			spell = r.Intn(2) // congruent spellings k*M would leave the assembler's 32 bits (and, for the largest cores, 64 bits)
		}
		asm32 := false
		if m > 1<<31 && r.Chance(1, 2) {
			// fields whose 32-bit spelling exists (v < 2^31 or v >= M-2^31), the extremes included: such a text is within
			// the assembler's number range although the core is not
			pick := func() int {
				return []int{0, 1, 1<<31 - 1, 1<<31 - 2, r.Intn(1 << 31), m - 1, m - (1 << 31), m - (1 << 31) + 1, m - 1 - r.Intn(1<<31)}[r.Intn(9)]
			}
			for i := range code {
				code[i].A, code[i].B = pick(), pick()
			}
			spell, asm32 = 4, true
			c.Inc("huge_core_texts_within_32_bit_spelling")
		}
		lines := asm.PrintLoadFile(code, start, d, m, spell, r)
		// perturbation sets: the canonical text, single perturbations, and random products
		set := 0
		switch idx % 4 {
		case 0:
			set = 0
		case 1:
			set = 1 << uint(r.Intn(asm.NumPerturbations))
		default:
			set = r.Intn(1 << asm.NumPerturbations)
		}
		text := asm.Perturb(lines, set, d, r)
		if idx%20011 == 7 {
			// comment and blank lines may be many: a text padded beyond 32 MiB / 64 MiB (sizes where buffers, caps and
			// 25-26-bit counters sit) still denotes the same warrior
			mib := []int{33, 48, 65}[r.Intn(3)]
			padLine := "; " + strings.Repeat("-", 1000) + "\n"
			pad := strings.Repeat(padLine, mib*1024*1024/len(padLine)+1)
			at := 0
			if k := strings.Index(text, "\n"); k >= 0 && r.Bool() {
				at = k + 1 // after the first line
			}
			text = text[:at] + pad + text[at:]
			c.Inc("texts_padded_beyond_32_MiB")
		}
		cs := func() interface{} {
			t := text
			if len(t) > 1<<20 {
				t = describeText(t) // the case is regenerated from its index on replay
			}
			return &lfCase{Config: gc, Text: t, Want: coreStr(code), Start: start, Set: asm.PerturbSetName(set)}
		}
		c.Inc("texts")
		c.Set("forms_covered", fmt.Sprintf("%d|%d", d, formOf(code[0])))
		c.Set("perturbation_sets", fmt.Sprint(set))
		readers := []string{"loader", "assembler"}
		if m > 1<<31 && !asm32 {
			readers = readers[:1] // the assembler's numbers are 32-bit (C07): fields of such cores are beyond it
		}
		for _, reader := range readers {
			var wd g.WarriorData
			var err error
			var pm string
			if reader == "loader" {
				wd, err, pm = loadFile(text, gc)
			} else {
				wd, err, pm = compile(text, gc)
			}
			if pm != "" {
				c.Violate("C09:panic:"+reader+":"+panicSite(pm), pm, cs())
				return
			}
			if err != nil {
				c.Violate("C09:rejected:"+reader, fmt.Sprintf("the %s rejected a well-formed load file (%s): %v", reader, asm.PerturbSetName(set), err), cs())
				return
			}
			if dd := diffCode(wd.Code, code); dd != "" {
				c.Violate("C09:code:"+reader+":"+diffClass(dd), fmt.Sprintf("%s (%s): %s", reader, asm.PerturbSetName(set), dd), cs())
				return
			}
			if wd.Start != start {
				c.Violate("C09:start:"+reader, fmt.Sprintf("%s (%s): entry point %d, expected %d", reader, asm.PerturbSetName(set), wd.Start, start), cs())
				return
			}
			c.Inc("roundtrips_" + reader)
			// what an earlier call returned must still be what it returned (no storage shared between results)
			for _, h := range held {
				if len(h.got.Code) != len(h.copy) {
					c.Violate("C09:earlier-result-changed", "a result returned by an earlier "+h.who+" call changed its length after later calls", cs())
					return
				}
				for i := range h.copy {
					if h.got.Code[i] != h.copy[i] {
						c.Violate("C09:earlier-result-changed", fmt.Sprintf("instruction %d of a warrior returned by an earlier %s call changed from %v to %v after later calls of the readers", i, h.who, h.copy[i], h.got.Code[i]), cs())
						return
					}
				}
			}
			if idx%16 < 2 {
				if len(held) >= 4 {
					held = held[1:]
				}
				held = append(held, heldResult{got: wd, copy: append([]g.Instruction(nil), wd.Code...), who: reader})
			}
		}
		bits := 0
		for b := 0; b < asm.NumPerturbations; b++ {
			if set&(1<<uint(b)) != 0 {
				bits++
			}
		}
		if bits >= 2 || spell != 0 {
			c.Nontrivial(fmt.Sprintf("%d|%d|s%d", d, set, min(spell, 1)))
			c.Inc("nontrivial_texts")
		}
		if idx%1499 == 3 {
			c.Sample(cs())
		}
	})
}
