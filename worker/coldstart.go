package main

import (
	"fmt"
	"os"
	"os/exec"
	"strings"
	"sync"

	g "github.com/bobertlo/gmars"
)

// Cold start.  "No matter how many other assemblies and simulators are active" includes the very
// first ones of a process: tables built lazily on first use, once-only initialisation and the like
// are exercised exactly once per process, so a warmed-up process can never observe them.  The
// burst below must be the FIRST thing a process does with gmars: goroutines released together each
// assemble, load and simulate; afterwards the same jobs are repeated one by one in the (now warm)
// process and must give the same answers.  runC14 runs it in its own process and in fresh child
// processes (VERIF_COLDSTART=1 re-executes the worker binary; race reports of the children land in
// the same log directory).

const coldText94 = "start dat 0\nmov.a 1, 2\nadd.b #1, @2\nsub.ab <1, >2\nmul.ba {1, }2\ndiv.f *1, 2\nmod.x 1, 2\njmp start\njmz.i 1, 2\njmn 1, 2\ndjn 1, 2\ncmp 1, 2\nseq 1, 2\nsne 1, 2\nslt #1, 2\nspl 1\nnop 1\nx equ 3\ni for 2\ndat i, x\nrof\n;assert CORESIZE > 1\nend start\n"
const coldText88 = "start mov 0, 1\nadd #1, @2\nsub <1, 2\njmp start\njmz 1, 2\njmn 1, 2\ndjn 1, 2\ncmp 1, 2\nslt #1, 2\nspl 1\ndat #0, #1\nend start\n"
const coldLoad94 = ";redcode\n;name cold\n       ORG      1\n       MOV.I  $     0, $     1\n       ADD.AB #     4, $     3\n       SPL.B  $     0, }     2\n       DJN.F  $    -1, <    -3\n       END\n"

func coldJob(k int) string {
	cfg94 := g.SimulatorConfig{Mode: g.ICWS94, CoreSize: 8000, Processes: 8000, Cycles: 100, ReadLimit: 8000, WriteLimit: 8000, Length: 100, Distance: 100}
	cfg88 := cfg94
	cfg88.Mode = g.ICWS88
	var b strings.Builder
	defer func() {
		if r := recover(); r != nil {
			fmt.Fprintf(&b, "PANIC: %v", r)
		}
	}()
	for step := 0; step < 4; step++ {
		switch (k + step) % 4 {
		case 0:
			wd, err := g.CompileWarrior(strings.NewReader(coldText94), cfg94)
			b.WriteString("asm94 " + sumWarrior(wd, err) + "; ")
		case 1:
			wd, err := g.CompileWarrior(strings.NewReader(coldText88), cfg88)
			b.WriteString("asm88 " + sumWarrior(wd, err) + "; ")
		case 2:
			wd, err := g.ParseLoadFile(strings.NewReader(coldLoad94), cfg94)
			b.WriteString("load94 " + sumWarrior(wd, err) + "; ")
		default:
			s, err := g.NewSimulator(cfg94)
			if err != nil {
				b.WriteString("sim error; ")
				break
			}
			w, _ := s.AddWarrior(&g.WarriorData{Name: "imp", Code: []g.Instruction{{Op: g.MOV, OpMode: g.I, AMode: g.DIRECT, A: 0, BMode: g.DIRECT, B: 1}}})
			s.SpawnWarrior(0, 7)
			res := s.Run()
			fmt.Fprintf(&b, "sim %v %d %v %q; ", res, s.CycleCount(), s.GetMem(50), w.LoadCode())
		}
	}
	return b.String()
}

// coldStartBurst returns "" or a description of the first job whose concurrent result differs from its sequential one.
func coldStartBurst() string {
	const n = 16
	gate := make(chan struct{})
	res := make([]string, n)
	var wg sync.WaitGroup
	for k := 0; k < n; k++ {
		wg.Add(1)
		go func(k int) {
			defer wg.Done()
			<-gate
			res[k] = coldJob(k)
		}(k)
	}
	close(gate)
	wg.Wait()
	for k := 0; k < n; k++ {
		if want := coldJob(k); res[k] != want {
			return fmt.Sprintf("job %d, among the first 16 concurrent jobs of a fresh process, returned %q; the same job run alone afterwards returned %q", k, res[k], want)
		}
	}
	return ""
}

func coldStartChildMain() {
	if d := coldStartBurst(); d != "" {
		fmt.Println(d)
		os.Exit(3)
	}
	os.Exit(0)
}

// coldStarts runs the burst in this process (it must be called before anything else touches gmars) and in
// `children` fresh processes.
func coldStarts(c *Ctx, children int) {
	if d := coldStartBurst(); d != "" {
		c.Violate("C14:cold-start:result-differs", d, map[string]interface{}{"where": "worker process"})
	}
	c.Inc("cold_start_bursts")
	for i := 0; i < children; i++ {
		cmd := exec.Command(os.Args[0])
		cmd.Env = append(os.Environ(), "VERIF_COLDSTART=1")
		out, err := cmd.CombinedOutput()
		c.Inc("cold_start_bursts")
		if err == nil {
			continue
		}
		text := string(out)
		first := strings.SplitN(strings.TrimSpace(text), "\n", 2)[0]
		if ee, ok := err.(*exec.ExitError); ok && ee.ExitCode() == 3 {
			c.Violate("C14:cold-start:result-differs", first, map[string]interface{}{"where": "fresh child process"})
			return
		}
		if len(text) > 3000 {
			text = text[:3000]
		}
		if strings.Contains(text, "gmars") {
			c.Violate("C14:cold-start:fatal:"+first, "a fresh process running 16 concurrent first jobs died: "+text, map[string]interface{}{"where": "fresh child process"})
			return
		}
		c.Inconclusive(fmt.Sprintf("cold-start child failed without a gmars frame: %v %s", err, first))
		return
	}
}
