package main

import (
	"fmt"
	"hash/fnv"
	"io"
	"os"
	"runtime"
	"strings"
	"sync"
	"sync/atomic"
	"time"

	g "github.com/bobertlo/gmars"

	"verif/ref/asm"
	"verif/ref/mars"
)

func init() { props["C14"] = runC14 }

type jobKind int

const (
	jkAsmValid jobKind = iota
	jkAsmInvalid
	jkAsmFor
	jkAsmEqu
	jkLoad
	jkBattle
	numJobKinds
)

var jobKindNames = [numJobKinds]string{"asm-valid", "asm-invalid", "asm-for", "asm-equ", "load", "battle"}

type job struct {
	kind     jobKind
	text     string
	cfg      g.SimulatorConfig
	shared   []*g.WarriorData // battle: warriors shared between jobs (and with the caller)
	offs     []int
	seq      string // result when run alone
	seqAfter bool   // the run-alone result is taken after the concurrent phase (no warm-up of any cache)
	reset    bool   // battle: run, Reset, respawn and run again; both runs must give the same result
	debug    bool   // battle: the library's debug reporter is attached (it prints a trace to standard output)
	expect   string // battle: result of the reference MARS (independent of any history)
}

func battleSummary(surv []bool, cycles int, m int, cell func(a int) g.Instruction, queues [][]int) string {
	h := fnv.New64a()
	for a := 0; a < m; a++ {
		c := cell(a)
		fmt.Fprintf(h, "%d.%d.%d.%d.%d.%d;", c.Op, c.OpMode, c.AMode, c.A, c.BMode, c.B)
	}
	for _, q := range queues {
		fmt.Fprintf(h, "%v|", q)
	}
	return fmt.Sprintf("surv=%v cycles=%d h=%x", surv, cycles, h.Sum64())
}

// summary of a WarriorData / error pair (error message not included: it may
// legitimately name "the first" offending symbol in map order)
func sumWarrior(wd g.WarriorData, err error) string {
	h := fnv.New64a()
	fmt.Fprintf(h, "%v|%q|%q|%q|%d|%d|", err != nil, wd.Name, wd.Author, wd.Strategy, wd.Start, len(wd.Code))
	for _, c := range wd.Code {
		fmt.Fprintf(h, "%d.%d.%d.%d.%d.%d;", c.Op, c.OpMode, c.AMode, c.A, c.BMode, c.B)
	}
	return fmt.Sprintf("err=%v len=%d start=%d h=%x", err != nil, len(wd.Code), wd.Start, h.Sum64())
}

func (j *job) run() (res string) {
	defer func() {
		if r := recover(); r != nil {
			res = fmt.Sprintf("PANIC: %v", r)
		}
	}()
	switch j.kind {
	case jkLoad:
		wd, err := g.ParseLoadFile(strings.NewReader(j.text), j.cfg)
		return sumWarrior(wd, err)
	case jkBattle:
		s, err := g.NewReportingSimulator(j.cfg)
		if err != nil {
			return "cfg-error"
		}
		if j.debug {
			s.AddReporter(g.NewDebugReporter(s))
		}
		var ws []g.Warrior
		for _, wd := range j.shared {
			w, err := s.AddWarrior(wd)
			if err != nil {
				return "add-error"
			}
			ws = append(ws, w)
		}
		for i := range j.shared {
			if err := s.SpawnWarrior(i, g.Address(j.offs[i])); err != nil {
				return "spawn-error"
			}
		}
		summary := func(surv []bool) string {
			var qs [][]int
			for _, w := range ws {
				q := []int{}
				for _, pc := range w.Queue() {
					q = append(q, int(pc))
				}
				qs = append(qs, q)
			}
			return battleSummary(surv, s.CycleCount(), int(s.CoreSize()), func(a int) g.Instruction { return s.GetMem(g.Address(a)) }, qs)
		}
		first := summary(s.Run())
		if j.reset {
			s.Reset()
			for i := range j.shared {
				if err := s.SpawnWarrior(i, g.Address(j.offs[i])); err != nil {
					return "respawn-error"
				}
			}
			if second := summary(s.Run()); second != first {
				return "AFTER-RESET-DIFFERS: " + first + " vs " + second
			}
		}
		return first
	default:
		wd, err := g.CompileWarrior(strings.NewReader(j.text), j.cfg)
		return sumWarrior(wd, err)
	}
}

// pausingReader delivers text[:at], sleeps, then delivers the rest.
type pausingReader struct {
	text   string
	at     int
	pause  time.Duration
	pos    int
	paused bool
}

func (p *pausingReader) Read(b []byte) (int, error) {
	if p.pos >= len(p.text) {
		return 0, io.EOF
	}
	end := len(p.text)
	if p.pos < p.at {
		end = p.at
	} else if !p.paused {
		p.paused = true
		time.Sleep(p.pause)
	}
	n := copy(b, p.text[p.pos:end])
	p.pos += n
	return n, nil
}

func copyWD(w *g.WarriorData) g.WarriorData {
	c := *w
	c.Code = append([]g.Instruction(nil), w.Code...)
	return c
}

func sameWD(a, b g.WarriorData) bool {
	if a.Name != b.Name || a.Author != b.Author || a.Strategy != b.Strategy || a.Start != b.Start || len(a.Code) != len(b.Code) {
		return false
	}
	for i := range a.Code {
		if a.Code[i] != b.Code[i] {
			return false
		}
	}
	return true
}

func runC14(c *Ctx) {
	if c.Only < 0 {
		// some battle jobs attach the library's debug reporter, which prints to standard output: nobody reads it
		if null, err := os.OpenFile(os.DevNull, os.O_WRONLY, 0); err == nil {
			os.Stdout = null
		}
	}
	// first of all, before this process has used gmars for anything: the cold-start bursts
	if c.Only < 0 {
		children := 6
		if c.Thorough() {
			children = 40
		}
		coldStarts(c, children)
	}
	rounds := int64(160)
	if c.Thorough() {
		rounds = 6000
	}
	if !c.Race {
		rounds *= 4
	}
	tg := newTextGen()
	var maxInflight atomic.Int64
	// one job that is slow for reasons of its own: its input arrives in two halves with a long pause in between,
	// while all the other work of this shard goes on.  Its result must be the result of the same text read at once.
	var stalled chan string
	const stalledText = "x equ 2\nstart mov 0, 1\ni for x\nadd #i, start\nrof\njmp start\nend start\n"
	stalledCfg := g.SimulatorConfig{Mode: g.ICWS94, CoreSize: 8000, Processes: 8000, Cycles: 80000, ReadLimit: 8000, WriteLimit: 8000, Length: 100, Distance: 100}
	if c.Shard == 0 && c.Only < 0 {
		pause := 11 * time.Second
		if c.Thorough() {
			pause = 31 * time.Second
		}
		stalled = make(chan string, 1)
		go func() {
			defer func() {
				if r := recover(); r != nil {
					stalled <- fmt.Sprintf("PANIC: %v", r)
				}
			}()
			wd, err := g.CompileWarrior(&pausingReader{text: stalledText, at: len(stalledText) / 2, pause: pause}, stalledCfg)
			stalled <- sumWarrior(wd, err)
		}()
	}
	defer func() {
		if stalled == nil {
			return
		}
		got := <-stalled
		wd, err := g.CompileWarrior(strings.NewReader(stalledText), stalledCfg)
		if want := sumWarrior(wd, err); got != want {
			c.Violate("C14:result-differs:slow-input", fmt.Sprintf("a text whose second half arrived after a long pause assembled to %q; read at once it assembles to %q", got, want), map[string]interface{}{"text": stalledText})
		}
		c.Inc("slow_input_jobs_compared")
	}()
	c.Cases(rounds, func(idx int64, r *Rng) {
		// ---------------- aliasing monitor (sequential) ----------------
		{
			bc := genBattle(r, 2, false)
			w0 := bc.Warriors[0]
			if r.Chance(1, 60) && len(w0.Code) > 0 {
				// a very long warrior (more than 2^16 instructions): the simulator's copy is as long as the original
				long := make([]mars.Insn, r.Range(65537, 70000))
				for i := range long {
					long[i] = w0.Code[i%len(w0.Code)]
				}
				w0.Code = long
				w0.Start = r.Intn(len(long))
				c.Inc("aliasing_checks_with_more_than_65536_instructions")
			}
			caller := &g.WarriorData{Name: "caller", Author: "me", Strategy: "s\n", Code: toGCode(w0.Code), Start: w0.Start}
			spare := r.Chance(1, 2)
			if spare {
				// a caller-side slice with room to spare (pre-sized buffers are common): the caller may go on appending
				roomy := make([]g.Instruction, len(caller.Code), 3*len(caller.Code)+r.Intn(8))
				copy(roomy, caller.Code)
				caller.Code = roomy
			}
			snap := copyWD(caller)
			s, err := g.NewSimulator(bc.config())
			if err == nil {
				w, _ := s.AddWarrior(caller)
				// scribble over everything the caller still owns
				for i := range caller.Code {
					caller.Code[i] = g.Instruction{Op: g.DAT, OpMode: g.X, AMode: g.IMMEDIATE, A: 1, BMode: g.IMMEDIATE, B: 1}
				}
				caller.Start = (caller.Start + 1) % max(len(caller.Code), 1)
				caller.Name, caller.Author = "scribbled", "scribbled"
				if spare {
					for cap(caller.Code) > len(caller.Code) {
						caller.Code = append(caller.Code, g.Instruction{Op: g.DAT, OpMode: g.F, AMode: g.IMMEDIATE, A: 3, BMode: g.IMMEDIATE, B: 3})
					}
					c.Inc("aliasing_checks_with_spare_capacity_appended")
				}
				scribbled := copyWD(caller)
				s.SpawnWarrior(0, g.Address(w0.Off))
				ref := mars.NewBattle(bc.M, bc.P, bc.C, bc.R, bc.W)
				ref.Add(mars.WarriorCode{Code: w0.Code, Start: w0.Start})
				ref.Spawn(0, w0.Off)
				if ok, d := compareBattle(s, []g.Warrior{w}, ref, 0); !ok {
					c.Violate("C14:alias:caller-change-shows-in-simulator", "after AddWarrior the caller changed its WarriorData and the simulator's battle changed: "+d, bc.describe())
					return
				}
				if w.Name() != snap.Name || w.Author() != snap.Author || w.Length() != len(snap.Code) {
					c.Violate("C14:alias:caller-change-shows-in-simulator", fmt.Sprintf("warrior metadata follows the caller's later changes: name %q author %q", w.Name(), w.Author()), bc.describe())
					return
				}
				s.Run()
				ref.Run()
				if ok, d := compareBattle(s, []g.Warrior{w}, ref, 0); !ok {
					c.Violate("C14:alias:caller-change-shows-in-simulator", "battle differs from the one of the data as it was when added: "+d, bc.describe())
					return
				}
				if !sameWD(*caller, scribbled) {
					c.Violate("C14:alias:battle-write-shows-in-caller", "the battle changed the caller's WarriorData", bc.describe())
					return
				}
				// a second simulator fed the pristine data must not be affected by the first battle
				c.Inc("aliasing_checks")
			}
		}

		// ---------------- AddWarrior must not write into the caller's data, whatever it holds ----------------
		{
			bc := genBattle(r, 1, false)
			w0 := bc.Warriors[0]
			caller := &g.WarriorData{Name: "shared", Code: toGCode(w0.Code), Start: w0.Start}
			// data assembled for a bigger core: some fields are >= this simulator's core size
			for i := range caller.Code {
				if r.Chance(1, 2) {
					caller.Code[i].A += g.Address(bc.M * r.Range(1, 3))
				}
				if r.Chance(1, 2) {
					caller.Code[i].B = g.Address(8000 - 1 - r.Intn(3))
				}
			}
			snap := copyWD(caller)
			if s, err := g.NewSimulator(bc.config()); err == nil {
				try(func() {
					s.AddWarrior(caller)
					s.SpawnWarrior(0, g.Address(w0.Off))
				})
				if !sameWD(*caller, snap) {
					c.Violate("C14:alias:addwarrior-writes-caller-data", "AddWarrior/SpawnWarrior changed the WarriorData the caller passed in (fields at or above this simulator's core size were rewritten in place)", bc.describe())
					return
				}
				c.Inc("caller_data_untouched_checks")
			}
		}

		// ---------------- the same *WarriorData added twice, edited in place in between ----------------
		{
			bc := genBattle(r, 2, false)
			if len(bc.Warriors) == 2 && len(bc.Warriors[0].Code) > 0 {
				w0 := bc.Warriors[0]
				w1 := &BWarrior{Code: make([]mars.Insn, len(w0.Code)), Start: w0.Start, Off: bc.Warriors[1].Off}
				for i := range w1.Code {
					w1.Code[i] = livelyInsn(r, bc.M)
				}
				bc.Warriors[1] = w1
				shared := &g.WarriorData{Name: "first", Code: toGCode(w0.Code), Start: w0.Start}
				if s, err := g.NewSimulator(bc.config()); err == nil {
					var ws []g.Warrior
					try(func() {
						a, _ := s.AddWarrior(shared)
						copy(shared.Code, toGCode(w1.Code)) // same length, same Start: only the content changes
						shared.Name = "second"
						b, _ := s.AddWarrior(shared)
						ws = []g.Warrior{a, b}
						s.SpawnWarrior(0, g.Address(w0.Off))
						s.SpawnWarrior(1, g.Address(w1.Off))
					})
					ref := bc.newRef(0)
					if len(ws) == 2 {
						if ok, d := compareBattle(s, ws, ref, 0); !ok {
							c.Violate("C14:alias:second-add-of-same-pointer", "the same *WarriorData was added twice with an in-place edit in between; each warrior must be the data as it was when added: "+d, bc.describe())
							return
						}
						c.Inc("same_pointer_added_twice_checks")
					}
				}
			}
		}

		// ---------------- the same text read twice under the same configuration, the first result edited in between ----------------
		// "always yields the same result": a result handed to a caller belongs to the caller; whatever the
		// caller does to it, a later assembly (or load) of the same text must still yield the original
		{
			ac := asm.Config{Dialect: asm.D94, CoreSize: 8000, Length: 100, Processes: 8000, Distance: 100}
			gc := gcfg(ac, g.ICWS94)
			code, start := genWarrior(r, int64(r.Intn(7616)), asm.D94, ac.CoreSize, 1+r.Intn(8))
			text := strings.Join(asm.PrintLoadFile(code, start, asm.D94, ac.CoreSize, r.Intn(2), r), "\n") + "\n"
			if r.Chance(1, 2) {
				text = ";name twice\n;author me\n;strategy s\n" + text
			}
			for _, how := range []string{"assembled", "loaded"} {
				read := func() (g.WarriorData, error) {
					if how == "assembled" {
						return g.CompileWarrior(strings.NewReader(text), gc)
					}
					return g.ParseLoadFile(strings.NewReader(text), gc)
				}
				var first, second g.WarriorData
				var e1, e2 error
				var snap g.WarriorData
				if p, msg := try(func() {
					first, e1 = read()
					snap = copyWD(&first)
					for i := range first.Code {
						first.Code[i] = g.Instruction{Op: g.DAT, OpMode: g.X, AMode: g.IMMEDIATE, A: 7, BMode: g.IMMEDIATE, B: 7}
					}
					if r.Bool() && len(first.Code) > 0 {
						first.Code = append(first.Code[:len(first.Code)-1], g.Instruction{Op: g.NOP}, g.Instruction{Op: g.NOP})
					}
					first.Name, first.Start = "edited", 0
					second, e2 = read()
				}); p {
					c.Violate("C14:panic:"+panicSite(msg), msg, map[string]interface{}{"text": text, "how": how})
					return
				}
				if e1 != nil || e2 != nil {
					c.Violate("C14:twice:error", fmt.Sprintf("a canonical load file could not be %s: %v / %v", how, e1, e2), map[string]interface{}{"text": text})
					return
				}
				if !sameWD(second, snap) {
					c.Violate("C14:alias:result-shared-between-calls", fmt.Sprintf("the same text was %s twice under the same configuration; the caller edited the first result in place and the second result differs from the first as it was returned", how), map[string]interface{}{"text": text, "how": how})
					return
				}
				c.Inc("read_twice_first_result_edited_checks")
			}
		}

		// ---------------- cross-simulator history probe (sequential) ----------------
		// a simulator with a LARGE process limit is run and Reset, then one with a SMALL limit runs a
		// splitting warrior: its outcome must be the reference outcome, whatever the first one left behind
		{
			bc := genBattle(r, 2, false)
			big := *bc
			big.P = r.Range(6, 12)
			if sb, _, err := big.newReal(0); err == nil {
				sb.Run()
				sb.Reset()
			}
			small := *bc
			small.P = r.Range(1, 3)
			small.C = r.Range(5, 60)
			spl := mars.Insn{Op: mars.SPL, Mod: mars.MB, AM: mars.DIR, BM: mars.DIR, A: 0, B: 0}
			small.Warriors = []*BWarrior{{Code: []mars.Insn{spl, {Op: mars.JMP, Mod: mars.MB, AM: mars.DIR, BM: mars.DIR, A: small.M - 1}}, Start: 0, Off: r.Intn(small.M)}}
			ss, ws, err := small.newReal(0)
			if err == nil {
				ss.Run()
				ref := small.newRef(0)
				ref.Run()
				if ok, d := compareBattle(ss, ws, ref, 0); !ok {
					c.Violate("C14:simulator-affected-by-earlier-simulator", "a simulator created after another one was run and Reset behaves differently from the reference: "+d, small.describe())
					return
				}
				c.Inc("cross_simulator_history_probes")
			}
		}

		// ---------------- concurrent jobs ----------------
		ac := randAsmConfig(r, asm.D94)
		if ac.CoreSize > 8192 || ac.CoreSize < 80 {
			ac.CoreSize = 8000
			ac.Length = 100
			ac.Distance = 100
		}
		gc := gcfg(ac, g.ICWS94)
		njobs := r.Range(8, 48)
		// shared warrior data for battle jobs
		var sharedPool []*g.WarriorData
		bcfg := genBattle(r, 3, true)
		for _, w := range bcfg.Warriors {
			sharedPool = append(sharedPool, &g.WarriorData{Name: "shared", Code: toGCode(w.Code), Start: w.Start})
		}
		var sharedSnaps []g.WarriorData
		for _, w := range sharedPool {
			sharedSnaps = append(sharedSnaps, copyWD(w))
		}
		var jobs []*job
		for k := 0; k < njobs; k++ {
			j := &job{cfg: gc}
			switch x := r.Intn(15); {
			case x < 2:
				j.kind = jkAsmValid
				// every job assembles under its own configuration: same core size, other Length / Distance / Processes
				jc := ac
				jc.Length = []int{ac.Length, 20, 50, 100}[r.Intn(4)]
				jc.Distance = []int{0, 7, 25, 100, jc.Length}[r.Intn(5)]
				if jc.Length > jc.CoreSize {
					jc.Length = jc.CoreSize
				}
				if jc.Length+jc.Distance > jc.CoreSize {
					jc.Distance = 0
				}
				jc.Processes = []int{ac.Processes, 1, 64}[r.Intn(3)]
				j.cfg = gcfg(jc, g.ICWS94)
				var p *asm.Prog
				for t := 0; t < 5; t++ {
					p = asm.GenProg(r, asm.GenOpts{Cfg: jc, MaxLines: 6, UseLabels: true, UseEqus: r.Bool(), UseConsts: true})
					if mn, e := p.Meaning(); e == nil {
						wd := g.WarriorData{Code: toGCode(mn.Code), Start: mn.Start}
						j.expect = sumWarrior(wd, nil)
						break
					}
					p = nil
				}
				if p != nil {
					j.text = asm.Render(p, randStyle(r, progNames(p)))
				} else {
					j.text, j.cfg = "mov 0, 1\n", gc
				}
			case x < 4:
				j.kind = jkAsmInvalid
				j.text, _ = tg.hostile(int64(1000+r.Intn(100000)), r, asm.D94, ac)
			case x < 6:
				j.kind = jkAsmFor
				p := asm.GenProg(r, asm.GenOpts{Cfg: ac, MaxLines: 6, UseLabels: true, UseEqus: true, UseFor: true, MaxForExp: 8})
				j.text = asm.Render(p, &asm.Style{R: r, Spacing: 1, WithEnd: true})
			case x < 8:
				j.kind = jkAsmEqu
				// many EQUs, some undefined references: exercises the map-ordered paths
				p := asm.GenProg(r, asm.GenOpts{Cfg: ac, MaxLines: 8, UseLabels: true, UseEqus: true, UseConsts: true})
				j.text = asm.Render(p, randStyle(r, progNames(p)))
				if r.Chance(1, 3) {
					j.text += "\ndat undefined_a, undefined_b\n dat undefined_c\n"
				} else if r.Chance(1, 3) {
					// undefined names where only the compiler looks: in an ;assert, and a label that sits on an ORG line
					j.text += fmt.Sprintf("\n;assert undefined_in_assert_%d + 1\n", r.Intn(5))
					if r.Bool() {
						j.text += fmt.Sprintf("onorg%d org 0\ndat onorg%d\n", r.Intn(5), r.Intn(5))
					}
				}
				if r.Chance(1, 25) {
					// a long chain of EQU aliases (every name stands for the next one): whatever order the symbol
					// table is walked in, the answer is the same every time
					var b strings.Builder
					n := r.Range(1001, 1600)
					for i := 0; i < n; i++ {
						fmt.Fprintf(&b, "al%d equ al%d\n", i, i+1)
					}
					fmt.Fprintf(&b, "al%d equ %d\ndat al0, al%d\nmov al%d, 1\n", n, r.Intn(100), n/2, n-1)
					j.text = b.String()
				}
			case x < 9:
				j.kind = jkLoad
				code, start := genWarrior(r, int64(r.Intn(7616)), asm.D94, ac.CoreSize, min(ac.Length, 8))
				j.text = asm.Perturb(asm.PrintLoadFile(code, start, asm.D94, ac.CoreSize, r.Intn(4), r), r.Intn(1<<10), asm.D94, r)
			default:
				j.kind = jkBattle
				// every battle job has its own process and cycle limits (same core size: the warriors are shared)
				jb := *bcfg
				jb.P = r.Range(1, 8)
				jb.C = r.Range(1, 200)
				j.cfg = jb.config()
				j.reset = r.Chance(1, 2)
				j.debug = r.Chance(1, 4) && jb.C <= 60 // traced battles are kept short: every report prints a line
				n := r.Range(1, len(sharedPool))
				ref := mars.NewBattle(jb.M, jb.P, jb.C, jb.R, jb.W)
				for i := 0; i < n; i++ {
					wi := (i + k) % len(sharedPool)
					j.shared = append(j.shared, sharedPool[wi])
					j.offs = append(j.offs, r.Intn(2*bcfg.M))
					ref.Add(mars.WarriorCode{Code: bcfg.Warriors[wi].Code, Start: bcfg.Warriors[wi].Start})
				}
				for i := range j.shared {
					ref.Spawn(i, j.offs[i])
				}
				surv := ref.Run()
				var qs [][]int
				for _, w := range ref.W {
					qs = append(qs, append([]int{}, w.Queue...))
				}
				j.expect = battleSummary(surv, ref.Cycle, ref.M, func(a int) g.Instruction { return toG(ref.Core[a]) }, qs)
			}
			if j.kind <= jkAsmEqu && estimateExpansion(j.text) > maxExpansion {
				j.kind = jkAsmValid
				j.text = "mov 0, 1\n"
			}
			jobs = append(jobs, j)
		}
		// repeat texts many times: map iteration order must not show (the first three jobs 20x, every
		// FOR-heavy and EQU-heavy one 8x)
		base := len(jobs)
		for k, j := range jobs[:base] {
			reps := 0
			if j.kind <= jkAsmEqu && k < 3 {
				reps = 20
			} else if j.kind == jkAsmFor || j.kind == jkAsmEqu {
				reps = 8
			}
			for ; reps > 0; reps-- {
				cp := *j
				jobs = append(jobs, &cp)
			}
		}
		// run-alone results: for half of the jobs before the concurrent phase, for the others only
		// afterwards, so that no cache a job may fill is warm when its concurrent twin runs
		for k, j := range jobs {
			j.seqAfter = k%2 == 1
			if !j.seqAfter {
				j.seq = j.run()
			}
		}
		c.Count("jobs", int64(len(jobs)))
		procs := []int{1, 2, 4, 16}[r.Intn(4)]
		prev := runtime.GOMAXPROCS(procs)
		nthreads := r.Range(1, 32)
		var inflight [numJobKinds]atomic.Int64
		var total atomic.Int64
		var overlap [numJobKinds][numJobKinds]atomic.Int64
		results := make([]string, len(jobs))
		var wg sync.WaitGroup
		next := atomic.Int64{}
		for t := 0; t < nthreads; t++ {
			wg.Add(1)
			go func() {
				defer wg.Done()
				for {
					k := int(next.Add(1)) - 1
					if k >= len(jobs) {
						return
					}
					j := jobs[k]
					inflight[j.kind].Add(1)
					cur := total.Add(1)
					for {
						m := maxInflight.Load()
						if cur <= m || maxInflight.CompareAndSwap(m, cur) {
							break
						}
					}
					for o := jobKind(0); o < numJobKinds; o++ {
						if n := inflight[o].Load(); n > 1 || (n == 1 && o != j.kind) {
							overlap[j.kind][o].Add(1)
						}
					}
					results[k] = j.run()
					total.Add(-1)
					inflight[j.kind].Add(-1)
				}
			}()
		}
		wg.Wait()
		runtime.GOMAXPROCS(prev)
		for _, j := range jobs {
			if j.seqAfter {
				j.seq = j.run()
			}
		}
		for k, j := range jobs {
			c.Inc("jobs_" + jobKindNames[j.kind])
			if j.kind == jkAsmValid && j.expect != "" {
				c.Inc("assemblies_compared_with_meaning")
				for _, got := range []string{j.seq, results[k]} {
					if got != j.expect {
						c.Violate("C14:assembly-depends-on-history", fmt.Sprintf("assembly job %d gave %q; by construction (and whatever was assembled before or next to it) it is %q", k, got, j.expect),
							map[string]interface{}{"text": describeText(j.text), "config": j.cfg})
						return
					}
				}
			}
			if j.kind == jkBattle {
				c.Inc("battles_compared_with_reference")
				if j.reset {
					c.Inc("battles_with_reset_and_rerun")
				}
				for _, got := range []string{j.seq, results[k]} {
					if got != j.expect {
						c.Violate("C14:battle-outcome-depends-on-history", fmt.Sprintf("battle job %d (P=%d C=%d, reset=%v) gave %q; the reference MARS, which knows nothing of the other simulators, gives %q", k, j.cfg.Processes, j.cfg.Cycles, j.reset, got, j.expect),
							map[string]interface{}{"config": j.cfg, "offsets": j.offs, "warriors": len(j.shared)})
						return
					}
				}
			}
			if results[k] != j.seq {
				c.Violate("C14:result-differs:"+jobKindNames[j.kind], fmt.Sprintf("job %d (%s) run concurrently with %d other jobs on %d threads (GOMAXPROCS %d) gave %q; run alone it gave %q", k, jobKindNames[j.kind], len(jobs)-1, nthreads, procs, results[k], j.seq),
					map[string]interface{}{"kind": jobKindNames[j.kind], "text": describeText(j.text), "config": j.cfg})
				return
			}
			if strings.HasPrefix(j.seq, "PANIC") {
				c.Violate("C14:panic:"+jobKindNames[j.kind], j.seq, map[string]interface{}{"kind": jobKindNames[j.kind], "text": describeText(j.text), "config": j.cfg})
				return
			}
		}
		c.Inc("repeated_assembly_groups")
		for i, w := range sharedPool {
			if !sameWD(*w, sharedSnaps[i]) {
				c.Violate("C14:shared-data-modified", fmt.Sprintf("shared WarriorData %d was modified by the simulators using it", i), nil)
				return
			}
		}
		for a := jobKind(0); a < numJobKinds; a++ {
			for b := jobKind(0); b < numJobKinds; b++ {
				if overlap[a][b].Load() > 0 {
					c.Nontrivial(fmt.Sprintf("%s~%s|procs%d", jobKindNames[a], jobKindNames[b], procs))
					c.Count("job_overlaps_observed", overlap[a][b].Load())
				}
			}
		}
		c.Inc(fmt.Sprintf("rounds_gomaxprocs_%d", procs))
		if idx%17 == 0 {
			c.Sample(map[string]interface{}{"jobs": len(jobs), "threads": nthreads, "gomaxprocs": procs, "first_job": map[string]string{"kind": jobKindNames[jobs[0].kind], "text": describeText(jobs[0].text), "result": jobs[0].seq}})
		}
	})
	c.Max("max_jobs_in_flight", maxInflight.Load())
}
