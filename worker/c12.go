package main

import (
	"fmt"
	"strings"

	g "github.com/bobertlo/gmars"

	"verif/ref/mars"
)

func init() { props["C12"] = runC12 }

// C12: relational monitor over real simulators only: the battle placed at
// shift k (and at k+j*M) must be the rotation by k of the battle at shift 0.
func runC12(c *Ctx) {
	n := int64(80000)
	if c.Thorough() {
		n = 4000000
	}
	c.Cases(n, func(idx int64, r *Rng) {
		bc := genBattle(r, 3, true)
		if idx == 0 {
			// pinned witness of a repaired defect (known_findings.txt): an imp whose offset is >= the core size
			bc = &BattleCase{M: 10, P: 2, C: 30, R: 10, W: 10, Warriors: []*BWarrior{{Code: []mars.Insn{tImp.Code[0]}, Start: 0, Off: 3}}}
		}
		if bc.C > 120 {
			bc.C = r.Range(1, 120)
		}
		if idx > 0 && r.Chance(1, 400) {
			// a big core whose size is not a multiple of anything convenient (not of a power of two, not of the number
			// of CPUs): the warriors sit near its top in some placements, elsewhere in others
			bc.M = []int{65537, 70001, 100003, 131071, 65536 + 16*r.Range(1, 500) + r.Range(1, 15)}[r.Intn(5)]
			if r.Chance(1, 12) {
				bc.M = 1<<22 + r.Range(1, 3) // four million cells and a few (rare: hundreds of MiB)
				bc.C = min(bc.C, 20)
			}
			bc.R, bc.W = bc.M, bc.M
			if r.Chance(1, 5) {
				// a warrior of more than 2^16 instructions (mostly blank, code at both ends)
				w := bc.Warriors[0]
				long := make([]mars.Insn, r.Range(65537, 70000))
				for i := range long {
					long[i] = mars.Empty
				}
				copy(long, w.Code)
				copy(long[len(long)-len(w.Code):], w.Code)
				if r.Bool() {
					w.Start = len(long) - len(w.Code) + w.Start
				}
				w.Code = long
				c.Inc("warriors_longer_than_65536_instructions")
			}
			for _, w := range bc.Warriors {
				w.Off = []int{bc.M - 1 - r.Intn(12), bc.M - len(w.Code), r.Intn(bc.M), r.Intn(20)}[r.Intn(4)]
				if w.Off < 0 {
					w.Off = 0
				}
			}
			c.Inc("battles_on_big_odd_cores")
		}
		m := bc.M
		base, bws, err := bc.newReal(0)
		if err != nil {
			c.Violate("C12:setup", err.Error(), bc.describe())
			return
		}
		var baseSurv []bool
		if p, msg := try(func() { baseSurv = base.Run() }); p {
			c.Violate("C12:panic-base:"+panicSite(msg), msg, bc.describe())
			return
		}
		// shifts: all of them for small cores (thorough), a boundary-biased sample otherwise
		var shifts []int
		if c.Thorough() && m <= 16 {
			for k := 1; k < m; k++ {
				shifts = append(shifts, k)
			}
		} else {
			shifts = []int{1, m - 1, r.Intn(m), r.Intn(m)}
			// a shift that makes the first warrior's code and entry point wrap
			w0 := bc.Warriors[0]
			shifts = append(shifts, ((m-w0.Off-w0.Start)%m+m)%m, ((m-w0.Off-1)%m+m)%m)
		}
		// half of the cases place every shifted battle on ONE simulator that is Reset in between
		var reuse g.ReportingSimulator
		var reuseW []g.Warrior
		if r.Bool() {
			reuse, reuseW, _ = bc.newReal(r.Intn(m))
			if reuse != nil {
				try(func() { reuse.Run() })
			}
		}
		for _, k := range shifts {
			if k == 0 {
				continue
			}
			for _, mult := range []int{0, 1, 2} {
				if mult > 0 && !r.Chance(1, 3) {
					continue
				}
				shift := k + mult*m
				wrapsCode, wrapsEntry := false, false
				for _, w := range bc.Warriors {
					o := (w.Off + k) % m
					if o+len(w.Code) > m {
						wrapsCode = true
					}
					if o+w.Start >= m {
						wrapsEntry = true
					}
				}
				var s g.ReportingSimulator
				var ws []g.Warrior
				var surv []bool
				if p, msg := try(func() {
					if reuse != nil {
						// the same simulator again: Reset, spawn at the new places, run
						s, ws = reuse, reuseW
						s.Reset()
						for i, w := range bc.Warriors {
							if e := s.SpawnWarrior(i, g.Address(w.Off+shift)); e != nil {
								err = e
								return
							}
						}
						c.Inc("shifts_on_a_reset_simulator")
					} else {
						s, ws, err = bc.newReal(shift)
					}
					if err == nil {
						surv = s.Run()
					}
				}); p || err != nil {
					c.Violate("C12:panic-shifted:"+panicSite(msg), fmt.Sprintf("shift %d: %v %s", shift, err, msg), bc.describe())
					return
				}
				c.Inc("pairs_compared")
				d := ""
				switch {
				case fmt.Sprint(surv) != fmt.Sprint(baseSurv):
					d = fmt.Sprintf("survivors: shifted %v, base %v", surv, baseSurv)
				case s.CycleCount() != base.CycleCount():
					d = fmt.Sprintf("CycleCount: shifted %d, base %d", s.CycleCount(), base.CycleCount())
				}
				for i := 0; d == "" && i < len(ws); i++ {
					qa, qb := ws[i].Queue(), bws[i].Queue()
					if len(qa) != len(qb) {
						d = fmt.Sprintf("queue of warrior %d: shifted %v, base %v", i, qa, qb)
						break
					}
					for j := range qa {
						if int(qa[j]) != (int(qb[j])+k)%m {
							d = fmt.Sprintf("queue of warrior %d: shifted %v, base %v (rotation %d)", i, qa, qb, k)
							break
						}
					}
				}
				for a := 0; d == "" && a < m; a++ {
					if s.GetMem(g.Address((a+k)%m)) != base.GetMem(g.Address(a)) {
						d = fmt.Sprintf("core: shifted cell %d is %v, base cell %d is %v", (a+k)%m, s.GetMem(g.Address((a+k)%m)), a, base.GetMem(g.Address(a)))
					}
				}
				if d != "" {
					c.Violate("C12:relation:"+strings.SplitN(d, ":", 2)[0], fmt.Sprintf("shift %d (=%d mod %d): %s", shift, k, m, d), bc.describe())
					return
				}
				if mult > 0 {
					c.Inc("offsets_beyond_coresize")
				}
				if wrapsCode {
					c.Inc("placements_wrapping_code")
				}
				if wrapsEntry {
					c.Inc("placements_wrapping_entry_point")
				}
				if wrapsCode || wrapsEntry || mult > 0 {
					kind := fmt.Sprintf("code%v-entry%v-mult%d", wrapsCode, wrapsEntry, mult)
					lim := "nolimit"
					if bc.R < m || bc.W < m {
						lim = "limits"
					}
					c.Nontrivial(fmt.Sprintf("%dw|%s|%s|M%d|len%d", len(bc.Warriors), kind, lim, m/4, len(bc.Warriors[0].Code)))
				}
			}
		}
		// offsets are unsigned 64-bit numbers: the largest ones congruent to k must place the battle like k does
		for _, k := range shifts[:min(len(shifts), 2)] {
			if k == 0 {
				continue
			}
			um := uint64(m)
			bases := []uint64{(^uint64(0) / um) * um, (uint64(1)<<63/um + 1) * um, (uint64(1) << 63 / um) * um} // multiples of M near 2^64 and 2^63
			big := bases[r.Intn(len(bases))]
			if big > ^uint64(0)-uint64(2*m) {
				big -= um * uint64(r.Range(0, 2)) // with 0: offset+index overflows 2^64 for the last cells
			}
			var s g.ReportingSimulator
			var ws []g.Warrior
			var surv []bool
			var serr error
			if p, msg := try(func() {
				s, serr = g.NewReportingSimulator(bc.config())
				if serr != nil {
					return
				}
				for _, w := range bc.Warriors {
					gw, _ := s.AddWarrior(&g.WarriorData{Name: "w", Code: toGCode(w.Code), Start: w.Start})
					ws = append(ws, gw)
				}
				for i, w := range bc.Warriors {
					// (w.Off + k) mod M, expressed as a huge congruent offset
					off := big + uint64((w.Off+k)%m)
					if off < big { // wrapped past 2^64: stay below
						off = big - um + uint64((w.Off+k)%m)
					}
					if e := s.SpawnWarrior(i, g.Address(off)); e != nil {
						serr = e
						return
					}
				}
				surv = s.Run()
			}); p || serr != nil {
				c.Violate("C12:panic-huge-offset:"+panicSite(msg), fmt.Sprintf("offset congruent to %d near 2^63/2^64: %v %s", k, serr, msg), bc.describe())
				return
			}
			c.Inc("huge_offsets_compared")
			d := ""
			if fmt.Sprint(surv) != fmt.Sprint(baseSurv) || s.CycleCount() != base.CycleCount() {
				d = fmt.Sprintf("survivors/cycles: huge offset %v/%d, base %v/%d", surv, s.CycleCount(), baseSurv, base.CycleCount())
			}
			for a := 0; d == "" && a < m; a++ {
				if s.GetMem(g.Address((a+k)%m)) != base.GetMem(g.Address(a)) {
					d = fmt.Sprintf("core: cell %d is %v, base cell %d is %v", (a+k)%m, s.GetMem(g.Address((a+k)%m)), a, base.GetMem(g.Address(a)))
				}
			}
			for i := 0; d == "" && i < len(ws); i++ {
				qa, qb := ws[i].Queue(), bws[i].Queue()
				if len(qa) != len(qb) {
					d = fmt.Sprintf("queue of warrior %d: %v vs base %v", i, qa, qb)
				}
				for j := 0; d == "" && j < len(qa); j++ {
					if int(qa[j]) != (int(qb[j])+k)%m {
						d = fmt.Sprintf("queue of warrior %d: %v vs base %v (rotation %d)", i, qa, qb, k)
					}
				}
			}
			if d != "" {
				c.Violate("C12:relation-huge-offset", fmt.Sprintf("offsets congruent to shift %d but near 2^63 / 2^64 (multiple of M %d added): %s", k, big, d), bc.describe())
				return
			}
			c.Nontrivial(fmt.Sprintf("%dw|huge-offset|M%d", len(bc.Warriors), m/4))
		}
		if idx%997 == 0 {
			c.Sample(bc.describe())
		}
	})
}
