package main

import (
	"fmt"

	g "github.com/bobertlo/gmars"

	"verif/ref/mars"
)

func init() { props["C11"] = runC11 }

func readCore(s g.Simulator, m int) []mars.Insn {
	out := make([]mars.Insn, m)
	for a := 0; a < m; a++ {
		out[a], _ = fromG(s.GetMem(g.Address(a)))
	}
	return out
}

func runC11(c *Ctx) {
	n := int64(numForms) * 32
	if c.Thorough() {
		n = int64(numForms) * 1024
	}
	nLarge := int64(3000)
	if c.Thorough() {
		nLarge = 600000
	}
	c.Cases(gridSize+nLarge+n, func(idx int64, r *Rng) {
		var sc *StepCase
		limited := true
		if idx >= gridSize+n {
			// cores from 2^15 to 2^20 with limits anywhere and pointer sums aimed at the discontinuities of Fold
			sc = genLargeCase(r)
			sc.K = 1
			limited = sc.R < sc.M || sc.W < sc.M
			c.Inc("large_core_cases")
		} else if idx < gridSize {
			// the boundary grid: every form x A,B in {0,1,2,M-1} x limits (M,M) (1,M) (M,1) (1,1) (2,2) (M-1,*)
			sc = genGridCase(idx, r)
			limited = sc.R < sc.M || sc.W < sc.M
			c.Inc("grid_cases")
		} else {
			limited = (idx-gridSize)%8 != 0 // 1/8 of the cases run with R=W=M for clause (c)
			sc = genStepCase(idx-gridSize, r, c.Thorough(), limited)
			if !limited {
				sc.R, sc.W = sc.M, sc.M
			}
		}
		if sc.M > 8000 && idx < gridSize+n {
			sc.M = 8000
			sc.Len = min(sc.Len, 8000)
			sc.R, sc.W = min(sc.R, 8000), min(sc.W, 8000)
			sc.Core = sc.Core[:8000]
			sc.PC %= 8000
			for i := range sc.Core {
				sc.Core[i].A %= 8000
				sc.Core[i].B %= 8000
			}
		}
		sc.P = 2
		sc.Bystanders = 0 // every step of this check runs on a fresh single-warrior simulator
		m, rl, wl := sc.M, sc.R, sc.W
		core := sc.Core
		pc := sc.PC
		radius := max(rl/2, wl/2)
		lc := limitClass(sc)
		for step := 0; step < sc.K; step++ {
			form := formOf(core[pc])
			var s g.Simulator
			var w g.Warrior
			var err error
			if p, msg := try(func() {
				s, w, err = newStepSim(sc, core, pc)
				if err == nil && sc.M <= 4096 && r.Chance(1, 6) {
					// a simulator with a history: step, Reset, spawn again
					s.RunCycle()
					s.Reset()
					err = s.SpawnWarrior(0, 0)
				}
				if err == nil {
					if sc.M <= 4096 && r.Chance(1, 2) {
						decoySim(sc, r) // a bystander simulator with other limits
						c.Inc("steps_with_bystander_simulator")
					}
					s.RunCycle()
				}
			}); p || err != nil {
				c.Violate("C11:panic:"+panicSite(msg), fmt.Sprintf("%v %s", err, msg), sc.describe())
				return
			}
			after := readCore(s, m)
			q := w.Queue()
			c.Inc("steps")
			// (a) locality of writes and of successors
			nontrivial := false
			for a := 0; a < m; a++ {
				if after[a] != core[a] {
					d := circDist(a, pc, m)
					if d > wl/2 {
						c.Violate("C11:write-too-far", fmt.Sprintf("step %d: executing %s at %d with write limit %d changed cell %d at circular distance %d > %d (from %s to %s)",
							step, insnStr(core[pc]), pc, wl, a, d, wl/2, insnStr(core[a]), insnStr(after[a])), sc.describe())
						return
					}
					if d == wl/2 && wl < m {
						c.Inc("writes_at_exactly_W/2")
					}
					if d >= 1 {
						nontrivial = true
					}
					c.Inc("changed_cells")
				}
			}
			for _, succ := range q {
				sa := int(succ)
				if sa == (pc+1)%m || sa == (pc+2)%m {
					continue
				}
				d := circDist(sa, pc, m)
				if d > rl/2 {
					c.Violate("C11:jump-too-far", fmt.Sprintf("step %d: executing %s at %d with read limit %d queued successor %d at circular distance %d > %d",
						step, insnStr(core[pc]), pc, rl, sa, d, rl/2), sc.describe())
					return
				}
				if d == rl/2 && rl < m {
					c.Inc("jumps_at_exactly_R/2")
				}
				nontrivial = true
				c.Inc("nonsequential_successors")
			}
			// (b) non-interference: a twin core that differs only outside the window must behave identically inside it
			if radius*2+1 < m {
				twin := append([]mars.Insn(nil), core...)
				changed := 0
				if m <= 8000 {
					for a := 0; a < m; a++ {
						if circDist(a, pc, m) > radius && (m <= 64 || r.Chance(1, 4)) {
							twin[a] = randInsn(r, m, rl, wl)
							changed++
						}
					}
				} else {
					// big cores: EVERY cell outside the window is altered (cheaply, without the generator):
					// whatever is fetched from beyond the limits then differs between the two cores
					for a := 0; a < m; a++ {
						if circDist(a, pc, m) > radius {
							c0 := twin[a]
							twin[a] = mars.Insn{Op: mars.Op((int(c0.Op) + 1 + a%3) % int(mars.NumOps)), Mod: c0.Mod, AM: c0.AM, BM: c0.BM, A: (c0.A + 1 + a%5) % m, B: (c0.B + 2 + a%7) % m}
							changed++
						}
					}
				}
				var s2 g.Simulator
				var w2 g.Warrior
				if p, msg := try(func() {
					s2, w2, err = newStepSim(sc, twin, pc)
					if err == nil {
						s2.RunCycle()
					}
				}); p || err != nil {
					c.Violate("C11:twin-panic:"+panicSite(msg), fmt.Sprintf("%v %s", err, msg), sc.describe())
					return
				}
				after2 := readCore(s2, m)
				for a := 0; a < m; a++ {
					inside := circDist(a, pc, m) <= radius
					if inside && after2[a] != after[a] {
						c.Violate("C11:outside-cell-influenced-result", fmt.Sprintf("step %d: executing %s at %d (R=%d W=%d): two cores that agree within distance %d of the PC end with different cell %d: %s vs %s — a cell beyond the limits was used",
							step, insnStr(core[pc]), pc, rl, wl, radius, a, insnStr(after[a]), insnStr(after2[a])), sc.describe())
						return
					}
					if !inside && after2[a] != twin[a] {
						c.Violate("C11:write-too-far", fmt.Sprintf("step %d (twin core): executing %s at %d changed cell %d outside the window of radius %d", step, insnStr(core[pc]), pc, a, radius), sc.describe())
						return
					}
				}
				if fmt.Sprint(w2.Queue()) != fmt.Sprint(q) {
					c.Violate("C11:outside-cell-influenced-queue", fmt.Sprintf("step %d: executing %s at %d (R=%d W=%d): two cores that agree within distance %d of the PC queue different successors: %v vs %v",
						step, insnStr(core[pc]), pc, rl, wl, radius, q, w2.Queue()), sc.describe())
					return
				}
				c.Inc("twin_pairs_compared")
				c.Count("twin_cells_randomised", int64(changed))
			}
			// (c) limits equal to the core size have no effect at all
			if rl == m && wl == m {
				ref := append([]mars.Insn(nil), core...)
				info := mars.Step(ref, pc, m, m, m, false, true)
				for a := 0; a < m; a++ {
					if ref[a] != after[a] {
						c.Violate("C11:full-limits-differ", fmt.Sprintf("step %d: with R=W=M executing %s at %d gives cell %d = %s, the limit-free reference gives %s", step, insnStr(core[pc]), pc, a, insnStr(after[a]), insnStr(ref[a])), sc.describe())
						return
					}
				}
				want := info.Succ[:info.NSucc]
				if !queueEq(q, want) {
					c.Violate("C11:full-limits-differ-queue", fmt.Sprintf("step %d: with R=W=M executing %s at %d queues %v, the limit-free reference queues %v", step, insnStr(core[pc]), pc, q, want), sc.describe())
					return
				}
				c.Inc("limit_free_steps_compared")
			}
			if nontrivial {
				rc, wc := "R=M", "W=M"
				if rl < m {
					rc = "R<M"
				}
				if wl < m {
					wc = "W<M"
				}
				c.Nontrivial(fmt.Sprintf("%d|%s|%s", form, rc, wc))
				c.Inc("nontrivial_steps")
			}
			if len(q) == 0 {
				break
			}
			core, pc = after, int(q[0])
		}
		// (d) the same K steps once more on ONE simulator (the steps above each start a fresh one): what an earlier
		// step left inside the simulator must not carry a later store beyond its own window
		if sc.K > 1 && m <= 4096 {
			var s g.Simulator
			var w g.Warrior
			var err error
			if p, msg := try(func() { s, w, err = newStepSim(sc, sc.Core, sc.PC) }); p || err != nil {
				c.Violate("C11:panic:"+panicSite(msg), fmt.Sprintf("%v %s", err, msg), sc.describe())
				return
			}
			prev := append([]mars.Insn(nil), sc.Core...)
			for step := 0; step < sc.K; step++ {
				at, e := w.NextPC()
				if e != nil {
					break
				}
				if p, msg := try(func() { s.RunCycle() }); p {
					c.Violate("C11:panic:"+panicSite(msg), msg, sc.describe())
					return
				}
				after := readCore(s, m)
				for a := 0; a < m; a++ {
					if after[a] != prev[a] {
						if d := circDist(a, int(at), m); d > wl/2 {
							c.Violate("C11:write-too-far", fmt.Sprintf("step %d of a run on one simulator: executing %s at %d with write limit %d changed cell %d at circular distance %d > %d",
								step, insnStr(prev[at]), at, wl, a, d, wl/2), sc.describe())
							return
						}
					}
				}
				prev = after
				c.Inc("steps_on_one_simulator")
			}
		}
		c.Inc("limit_class_" + lc)
		if idx%977 == 0 {
			c.Sample(sc.describe())
		}
	})
}
