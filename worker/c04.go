package main

import (
	"fmt"
	"strings"
	"time"

	g "github.com/bobertlo/gmars"

	"verif/ref/mars"
)

func init() { props["C04"] = runC04 }

type c04Case struct {
	Config   g.SimulatorConfig
	Warriors []*BWarrior
	UseRun   bool
}

func (k *c04Case) describe() *c04Case {
	for _, w := range k.Warriors {
		if len(w.Code) <= 40 {
			w.CodeText = coreStr(w.Code)
		} else {
			w.CodeText = append(coreStr(w.Code[:40]), fmt.Sprintf("... (%d instructions)", len(w.Code)))
		}
	}
	return k
}

var cfgVals = []int{0, 1, 2, 3, 4, 5, 7, 8, 16, 100, 1 << 10, 1 << 16, 1 << 20}

func cfgVal(r *Rng) g.Address {
	if r.Chance(1, 5) {
		return g.Address(r.Intn(1<<20 + 1))
	}
	return g.Address(cfgVals[r.Intn(len(cfgVals))])
}

// apiInvariants checks the invariants of C04 through the public API only.
func apiInvariants(s g.Simulator, ws []g.Warrior, cfg g.SimulatorConfig, scanCore bool, addrs []int) string {
	m := cfg.CoreSize
	if s.CycleCount() > int(cfg.Cycles) {
		return fmt.Sprintf("CycleCount %d > cycle limit %d", s.CycleCount(), cfg.Cycles)
	}
	alive := 0
	for i, w := range ws {
		q := w.Queue()
		if w.Alive() {
			alive++
		}
		if w.Alive() != (len(q) > 0) {
			return fmt.Sprintf("warrior %d: Alive=%v but %d tasks", i, w.Alive(), len(q))
		}
		if g.Address(len(q)) > cfg.Processes {
			return fmt.Sprintf("warrior %d holds %d tasks, process limit %d", i, len(q), cfg.Processes)
		}
		for _, pc := range q {
			if pc >= m {
				return fmt.Sprintf("warrior %d queued pc %d >= core size %d", i, pc, m)
			}
		}
	}
	if alive != s.WarriorLivingCount() {
		return fmt.Sprintf("WarriorLivingCount %d but %d warriors report alive", s.WarriorLivingCount(), alive)
	}
	chk := func(a g.Address) string {
		ins := s.GetMem(a)
		if ins.A >= m || ins.B >= m {
			return fmt.Sprintf("cell %d has a field >= core size: %v", a, ins)
		}
		if _, ok := fromG(ins); !ok {
			return fmt.Sprintf("cell %d has an enum outside the data model: %v", a, ins)
		}
		return ""
	}
	if scanCore {
		for a := g.Address(0); a < m; a++ {
			if d := chk(a); d != "" {
				return d
			}
		}
	} else {
		for _, a := range addrs {
			if d := chk(g.Address(a)); d != "" {
				return d
			}
		}
	}
	return ""
}

// addrRecorder collects the addresses named by reports during a cycle.
type addrRecorder struct {
	addrs  []int
	writes int
	far    bool // a write/inc/dec outside the loader's own area was reported
	areas  [][2]int
	m      int
	// a listener may look at the simulator while it is being told something: at the end of a cycle the
	// counters and the warriors' own states must agree
	sim   g.Simulator
	audit string
}

func (a *addrRecorder) Report(r g.Report) {
	switch r.Type {
	case g.WarriorWrite, g.WarriorIncrement, g.WarriorDecrement:
		a.addrs = append(a.addrs, int(r.Address))
		a.writes++
		if r.WarriorIndex >= 0 && r.WarriorIndex < len(a.areas) && a.m > 0 {
			ar := a.areas[r.WarriorIndex]
			d := ((int(r.Address)-ar[0])%a.m + a.m) % a.m
			if d >= ar[1] {
				a.far = true
			}
		}
	case g.WarriorTaskPop, g.WarriorTaskPush:
		a.addrs = append(a.addrs, int(r.Address))
	case g.CycleEnd:
		if a.sim != nil && a.audit == "" {
			alive := 0
			for i := 0; i < a.sim.WarriorCount(); i++ {
				if w := a.sim.GetWarrior(i); w != nil && w.Alive() {
					alive++
					if len(w.Queue()) == 0 {
						a.audit = fmt.Sprintf("at the CycleEnd report warrior %d is alive with an empty queue", i)
					}
				}
			}
			if alive != a.sim.WarriorLivingCount() {
				a.audit = fmt.Sprintf("at the CycleEnd report WarriorLivingCount() is %d but %d warriors report alive", a.sim.WarriorLivingCount(), alive)
			}
		}
	}
}

func runC04(c *Ctx) {
	n := int64(40000)
	if c.Thorough() {
		n = 1500000
	}
	c.Cases(n, func(idx int64, r *Rng) {
		k := &c04Case{}
		// configuration: half fully random, half "plausible" (so that many are accepted)
		if r.Chance(1, 2) {
			k.Config = g.SimulatorConfig{Mode: g.SimulatorMode(r.Intn(3)), CoreSize: cfgVal(r), Processes: cfgVal(r), Cycles: cfgVal(r),
				ReadLimit: cfgVal(r), WriteLimit: cfgVal(r), Length: cfgVal(r), Distance: cfgVal(r)}
		} else {
			m := r.Range(3, 64)
			if r.Chance(1, 40) {
				m = []int{800, 8000, 1 << 16}[r.Intn(3)]
			}
			lim := func() g.Address {
				switch r.Intn(4) {
				case 0:
					return g.Address(m)
				case 1:
					return g.Address(r.Range(1, m))
				case 2:
					return g.Address(m + r.Range(1, 3*m)) // larger than the core: Validate lets it through
				default:
					return g.Address([]int{1, 2, m - 1, m + 1}[r.Intn(4)])
				}
			}
			k.Config = g.SimulatorConfig{Mode: g.SimulatorMode(r.Intn(3)), CoreSize: g.Address(m), Processes: g.Address(r.Range(1, 6)), Cycles: g.Address(r.Range(1, 200)),
				ReadLimit: lim(), WriteLimit: lim(), Length: g.Address(r.Intn(m/2 + 1)), Distance: g.Address(r.Intn(m/2 + 1))}
			if r.Chance(1, 8) {
				k.Config.Processes = g.Address(cfgVals[r.Intn(len(cfgVals))])
			}
		}
		if r.Chance(1, 25) {
			// the mode field is a plain byte: values outside the three named rule sets must be refused or simulated, never crash
			k.Config.Mode = g.SimulatorMode([]int{3, 4, 7, 127, 128, 255}[r.Intn(6)])
			c.Inc("configs_with_mode_outside_the_enum")
		}
		cfg := k.Config
		c.Inc("configs_tried")
		var s g.ReportingSimulator
		var err error
		if p, msg := try(func() { s, err = g.NewReportingSimulator(cfg) }); p {
			c.Violate("C04:new-panic:"+panicSite(msg), msg, k.describe())
			return
		}
		if err != nil {
			c.Inc("configs_rejected")
			return
		}
		if s == nil {
			c.Violate("C04:new-neither", "NewReportingSimulator returned neither a simulator nor an error", k.describe())
			return
		}
		c.Inc("configs_accepted")
		m := int(cfg.CoreSize)
		if cfg.ReadLimit > cfg.CoreSize || cfg.WriteLimit > cfg.CoreSize {
			c.Inc("accepted_with_limit_above_coresize")
		}
		nw := r.Range(1, 4)
		if m >= 64 && m <= 4096 && cfg.Processes <= 4096 && r.Chance(1, 60) {
			nw = r.Range(129, 300) // a melee: more warriors than fit in a byte
			c.Inc("melees_with_more_than_128_warriors")
		}
		rec := &addrRecorder{m: m}
		if nw <= 4 {
			rec.sim = s
		}
		s.AddReporter(rec)
		if m <= 4096 && r.Chance(1, 3) {
			// the bundled recorder is part of the simulator as users see it: whatever the battle does (wrapping code,
			// reads past the end of the core, Reset) it must not crash
			sr := g.NewStateRecorder(s)
			sr.SetRecordRead(r.Bool())
			s.AddReporter(sr)
			c.Inc("battles_with_the_bundled_state_recorder_attached")
		}
		var ws []g.Warrior
		for i := 0; i < nw; i++ {
			l := r.Range(1, min(m, 12))
			if m <= 64 && r.Chance(1, 30) {
				l = r.Range(m+1, 3*m+2) // longer than the core (AddWarrior does not limit the length)
			}
			w := &BWarrior{Code: make([]mars.Insn, l), Start: r.Intn(l), Off: r.Intn(3 * m)}
			if nw <= 4 && r.Chance(1, 25) {
				w.Code, w.Start = w.Code[:0], 0 // a warrior without code: spawning it only queues a task at its offset
				l = 0
				c.Inc("warriors_without_code")
			}
			for j := range w.Code {
				w.Code[j] = randInsn(r, m, int(min(cfg.ReadLimit, cfg.CoreSize)), int(min(cfg.WriteLimit, cfg.CoreSize)))
			}
			if nw <= 4 && r.Chance(1, 12) {
				w.Start = l + r.Intn(2*m) // an entry point outside the code
				if r.Chance(1, 2) {
					w.Start = -1 - r.Intn(2*m+2) // Start is a plain int: negative values as well
					c.Inc("warriors_with_negative_entry_point")
				}
			}
			if nw >= 3 && nw <= 4 && i > 0 && r.Chance(1, 6) {
				w.NeverSpawn = true
			}
			k.Warriors = append(k.Warriors, w)
			rec.areas = append(rec.areas, [2]int{w.Off % m, l})
		}
		var added []*BWarrior
		setup := func() {
			for _, w := range k.Warriors {
				gw, e := s.AddWarrior(&g.WarriorData{Code: toGCode(w.Code), Start: w.Start})
				if e != nil {
					if w.Start >= len(w.Code) || w.Start < 0 {
						// an entry point outside the code may be refused; the simulator must stay sound
						c.Inc("addwarrior_refused_start_outside_code")
						continue
					}
					err = e
					return
				}
				ws = append(ws, gw)
				added = append(added, w)
			}
			for i, w := range added {
				if w.NeverSpawn {
					continue // added but never started: it must simply be skipped by the scheduler
				}
				if e := s.SpawnWarrior(i, g.Address(w.Off)); e != nil {
					err = e
					return
				}
			}
		}
		if p, msg := try(setup); p || err != nil {
			c.Violate("C04:setup:"+panicSite(msg), fmt.Sprintf("%v %s", err, msg), k.describe())
			return
		}
		check := func(when string, full bool) bool {
			var d string
			if p, msg := try(func() {
				d = apiInvariants(s, ws, k.Config, full, rec.addrs)
				if d == "" {
					if !full && m > 4096 {
						return
					}
					if inv := verifInvariants(s); len(inv) > 0 {
						d = fmt.Sprintf("internal: %v", inv)
					}
				}
			}); p {
				c.Violate("C04:query-panic:"+panicSite(msg), when+": "+msg, k.describe())
				return false
			}
			c.Inc("invariant_evaluations")
			if d == "" && rec.audit != "" {
				d = "seen by a listener: " + rec.audit
			}
			if d != "" {
				c.Violate("C04:invariant", when+": "+d, k.describe())
				return false
			}
			return true
		}
		if !check("after spawn", true) {
			return
		}
		// reuse: Reset (before anything ran, or after the battle) and the same warriors started again
		reuse := func(when string) bool {
			if p, msg := try(func() { s.Reset() }); p {
				c.Violate("C04:panic:reset:"+panicSite(msg), when+": "+msg, k.describe())
				return false
			}
			if !check("after Reset "+when, true) {
				return false
			}
			for i, w := range added {
				if w.NeverSpawn {
					continue
				}
				var e error
				if p, msg := try(func() { e = s.SpawnWarrior(i, g.Address(w.Off)) }); p || e != nil {
					c.Violate("C04:respawn-after-reset:"+panicSite(msg), fmt.Sprintf("%s: %v %s", when, e, msg), k.describe())
					return false
				}
			}
			c.Inc("resets_" + strings.ReplaceAll(when, " ", "_"))
			return check("after Reset "+when+" and respawn", true)
		}
		if m <= 4096 && nw <= 4 && r.Chance(1, 6) {
			if !reuse("before any cycle") {
				return
			}
		}
		k.UseRun = r.Chance(1, 4) && k.Config.Cycles <= 5000
		if k.UseRun {
			var pm string
			var pp bool
			c.Guarded(20*time.Second, "C04:run", k.describe(), func() { pp, pm = try(func() { s.Run() }) })
			if pp {
				c.Violate("C04:panic:"+panicSite(pm), pm, k.describe())
				return
			}
			c.Count("cycles", int64(s.CycleCount()))
			if !check("after Run()", true) {
				return
			}
		} else {
			steps := int(min(k.Config.Cycles, 300))
			if m > 4096 || nw > 100 {
				steps = min(steps, 40)
			}
			for cyc := 0; cyc < steps+2; cyc++ {
				rec.addrs = rec.addrs[:0]
				if p, msg := try(func() { s.RunCycle() }); p {
					c.Violate("C04:panic:"+panicSite(msg), fmt.Sprintf("cycle %d: %s", cyc, msg), k.describe())
					return
				}
				c.Inc("cycles")
				// a dead warrior may be spawned again in the middle of a battle (the API allows it)
				if m <= 4096 {
					for i, w := range ws {
						if !w.Alive() && r.Chance(1, 6) {
							var e error
							if p, msg := try(func() { e = s.SpawnWarrior(i, g.Address(r.Intn(3*m))) }); p || e != nil {
								c.Violate("C04:respawn:"+panicSite(msg), fmt.Sprintf("cycle %d: re-spawning dead warrior %d failed: %v %s", cyc, i, e, msg), k.describe())
								return
							}
							c.Inc("dead_warriors_respawned")
						}
					}
				}
				full := m <= 4096 || cyc == steps+1 || (apiDecided(s) && cyc >= steps)
				if !check(fmt.Sprintf("after cycle %d", cyc), full) {
					return
				}
				if apiDecided(s) && cyc >= steps {
					break
				}
			}
		}
		if m <= 4096 && nw <= 4 && r.Chance(1, 5) {
			if !reuse("after the battle") {
				return
			}
			for cyc := 0; cyc < 3; cyc++ {
				rec.addrs = rec.addrs[:0]
				if p, msg := try(func() { s.RunCycle() }); p {
					c.Violate("C04:panic:"+panicSite(msg), fmt.Sprintf("cycle %d after Reset: %s", cyc, msg), k.describe())
					return
				}
				if !check(fmt.Sprintf("after Reset and cycle %d", cyc), true) {
					return
				}
			}
		}
		c.Count("writes_reported", int64(rec.writes))
		if rec.far {
			c.Inc("battles_writing_outside_own_area")
			mode := "limits<=M"
			if cfg.ReadLimit > cfg.CoreSize || cfg.WriteLimit > cfg.CoreSize {
				mode = "limit>M"
			}
			hist := 0
			for _, w := range k.Warriors {
				for _, ins := range w.Code {
					hist |= 1 << uint(ins.Op)
				}
			}
			c.Nontrivial(fmt.Sprintf("%s|m%d|p%d|nw%d|run%v|ops%x", mode, mClassIdx(m), min(int(cfg.Processes), 7), nw, k.UseRun, hist&0xff))
		}
		if idx%1999 == 0 {
			c.Sample(k.describe())
		}
	})
}

func mClassIdx(m int) int {
	switch {
	case m <= 8:
		return 0
	case m <= 32:
		return 1
	case m <= 64:
		return 2
	case m <= 4096:
		return 3
	default:
		return 4
	}
}
