package main

import (
	"fmt"
	"os"
	"path/filepath"
	"strconv"
	"strings"

	"verif/ref/asm"
)

// ---------------------------------------------------------------------------
// hostile text generation for the assembler (C05, C06, C14)

var vocab = []string{
	"dat", "mov", "add", "sub", "mul", "div", "mod", "jmp", "jmz", "jmn", "djn", "cmp", "seq", "sne", "slt", "spl", "nop",
	"MOV.I", "mov.ab", "add.f", "jmp.b", "dat.f", "spl.x", "mov.", ".i", "mov.q", "ldp.a",
	"equ", "EQU", "for", "FOR", "rof", "ROF", "org", "ORG", "end", "END",
	"#", "$", "@", "*", "{", "}", "<", ">", "+", "-", "/", "%", "(", ")", ",", ":", "==", "!=", "<=", ">=", "&&", "||", "!", "=", "&", "|",
	"0", "1", "2", "7", "100", "7999", "8000", "-1", "007", "99999999999", "2147483647", "2147483648",
	"a", "b", "x", "i", "j", "lbl", "loop", "tgt", "_", "CORESIZE", "MAXLENGTH", "MAXPROCESSES", "MINDISTANCE", "CURLINE", "__for_i_lbl",
	// identifiers that mean something to the host language (expressions are evaluated by a Go library)
	"nil", "true", "false", "iota", "len", "cap", "rune", "int", "uint8", "string", "float64", "complex", "real", "imag", "append", "make", "new", "panic", "print", "any", "error", "copy", "min", "max",
	"\n", "\n", "\n", "\n", " ", "\t", "\r\n", "\r",
	";comment", ";assert 1", ";assert 0", ";assert CORESIZE==8000", ";assert a", ";name n", ";author", ";strategy", ";strategy x", ";redcode",
}

var hostileBytes = []string{"\u212a", "\u212b", "\u2126", "\u1e9e", "\u0130", "\ufb01", "\u2028", "\u212a\u212a;", "\x00", "\x1a", "\xff", "\xfe\xff", "\xc3", "\xe2\x82", "é", "λ", " ", "\x7f", "\x0c", "\x0b", "\"", "'", "\\", "`", "~", "^", "?", "[", "]"}

// repoSeeds returns the warrior sources shipped with the repository.
func repoSeeds() []string {
	dir := os.Getenv("VERIF_REPO_DIR")
	if dir == "" {
		dir = "/repo"
	}
	var out []string
	for _, pat := range []string{"warriors/*/*.red", "warriors/*.rc", "test_files/*.rc"} {
		files, _ := filepath.Glob(filepath.Join(dir, pat))
		for _, f := range files {
			if b, err := os.ReadFile(f); err == nil && len(b) < 20000 {
				out = append(out, string(b))
			}
		}
	}
	return out
}

// fixed hostile programs: each targets a path that once failed
var hostileFixed = []string{
	"a equ b\nb equ a\n;assert a\nmov a, b\n",
	"i for 1\ndat i\nrof\nx equ y+1\ny equ x+1\nj for x\ndat j\nrof\n",
	"i for 2\ndat i\nrof\nx equ x\nj for 1\ndat j\nrof\nk for x+1\ndat k\nrof\n",
	"i for 1\nx equ y\ny equ z\nz equ x\nrof\nj for z\ndat j\nrof\n",
	"a equ a\n;assert a\n",
	"a equ b b\nb equ c c\nc equ d d\nd equ 1\ndat a\n",
	"x equ ; nothing\ndat x\n",
	"x equ;c\ny equ x\ndat y, x\n",
	"for 1\ndat 0\nrof\na equ b+1\nb equ a+1\nfor a\ndat 1\nrof\n",
	"a equ b+1\nb equ a+1\ni for a\ndat 1\nrof\n",
	"i for 2\ndat i\nrof\nx equ x\nj for x\ndat j\nrof\n",
	"imp mov 0, 1\nfor rune\ndat 0\nrof\n",
	"for nil\ndat 0\nrof\n",
	"for len\ndat 0\nrof\n",
	"for true\ndat 0\nrof\n",
	"i for iota+1\ndat i\nrof\n",
	"dat true, false\n",
	"dat nil\n",
	";assert true\ndat 0\n",
	";assert nil\ndat 0\n",
	";assert len\ndat 0\n",
	"x equ true\ndat x\n",
	"org nil\ndat 0\n",
	"i for q\ndat i\nrof\n",
	"i for 1/0\ndat i\nrof\n",
	"i for 2\ndat i\nrof\ndat 1 = 2\n",
	"i for 2\ndat i\n",
	"i for 2\nj for 2\ndat i\nrof\n",
	"rof\n",
	"for\n",
	"for 2\n",
	"i for\nrof\n",
	"i for 3",
	"x for 2\nrof",
	"i for 2\ndat 1 |\nrof\n",
	"i for 2 =\ndat 1\nrof\n",
	"i for -3\ndat 1\nrof\n",
	"i for 2\nend\nrof\n",
	"end\ni for 2\ndat 1\nrof\n",
	"lbl i for 2\nlbl2 dat lbl\nrof\n",
	"i for 2\ni for 2\ndat i\nrof\nrof\n",
	"mov 0, 1 ; no newline",
	"mov 0, 1\n;comment without newline",
	";strategy",
	";name",
	"\x1a",
	"\x00",
	"mov\x00 0, 1\n",
	"mov 0, 1\x1a\n",
	"=",
	"|",
	"&",
	"mov 0, 1 =",
	"dat 1 == 1, 2 != 2\n",
	"dat !1\n",
	"dat 1 <= 2\n",
	"dat (1\n",
	"dat 1)\n",
	"dat ()\n",
	"dat 1 2\n",
	"dat ,\n",
	"dat 1,\n",
	"dat # , 1\n",
	"org\n",
	"org 1 2\n",
	"end 1 2\n",
	"equ 3\n",
	"x equ\n",
	"x equ 3\nx equ 4\ndat x\n",
	"x x equ 3\n",
	"lbl lbl dat 0\n",
	"lbl\n",
	"lbl:\n",
	":\n",
	"lbl: : : dat 0\n",
	"dat 99999999999999999999999\n",
	"dat 2147483648\n",
	"dat 1/0\n",
	"dat 1%0\n",
	"org 1/0\ndat 0\n",
	"dat CURLINE\n",
	"dat 0x10\n",
	"dat 1.5\n",
	"mov.i.i 0, 1\n",
	"mov. 0, 1\n",
	".i 0, 1\n",
	strings.Repeat("(", 5000) + "1" + strings.Repeat(")", 5000) + "\n",
	"dat " + strings.Repeat("-", 5000) + "1\n",
	"dat " + strings.Repeat("1+", 5000) + "1\n",
	strings.Repeat("lbl ", 3000) + "dat 0\n",
	strings.Repeat("dat 0\n", 3000),
	strings.Repeat("\n", 5000),
	strings.Repeat("; c\n", 3000),
	strings.Repeat("x", 100000) + "\n",
	"dat " + strings.Repeat("9", 10000) + "\n",
}

// scaling families: inputs of about 50 KB whose cost must stay within the same per-call CPU budget
func init() {
	var b strings.Builder
	n := 3000
	for i := 0; i < n-1; i++ {
		fmt.Fprintf(&b, "e%d equ e%d\n", i, i+1)
	}
	fmt.Fprintf(&b, "e%d equ 1\ndat e0\n", n-1)
	hostileFixed = append(hostileFixed, b.String()) // a chain of 3000 EQUs, each a single token: every expansion has one token
	b.Reset()
	for i := 0; i < 4000; i++ {
		fmt.Fprintf(&b, "l%d dat l%d, 1\n", i, (i*7)%4000)
	}
	hostileFixed = append(hostileFixed, b.String()) // 4000 labels, each referenced
	b.Reset()
	for i := 0; i < 4000; i++ {
		fmt.Fprintf(&b, "e%d equ %d\n", i, i)
	}
	b.WriteString("dat e1, e3999\n")
	hostileFixed = append(hostileFixed, b.String()) // 4000 independent EQUs
	b.Reset()
	for i := 0; i < 3000; i++ {
		b.WriteString(";assert 1+1 == 2\n")
	}
	b.WriteString("dat 0\n")
	hostileFixed = append(hostileFixed, b.String())
	b.Reset()
	b.WriteString("i for 10\n")
	for i := 0; i < 400; i++ {
		b.WriteString("dat i, 1\n")
	}
	b.WriteString("rof\n")
	hostileFixed = append(hostileFixed, b.String())
	// a label, then a long run of blank lines, comment lines and colons, then a FOR block: the run is skipped token by token
	hostileFixed = append(hostileFixed, "lbl\n"+strings.Repeat("\n", 1300000)+"i for 2\ndat i\nrof\n")
	hostileFixed = append(hostileFixed, "lbl\n"+strings.Repeat(";\n", 1000000)+"i for 2\ndat i, lbl\nrof\n")
	hostileFixed = append(hostileFixed, "lbl"+strings.Repeat(":", 1300000)+"\ni for 2\ndat i\nrof\n")
	hostileFixed = append(hostileFixed, "dat 0\n"+strings.Repeat("\n", 700000)+"lbl dat 1\n")
	// a chain of EQUs each mentioning the previous one twice (the text doubles with every line): known finding
	b.Reset()
	b.WriteString("e0 equ 1\n")
	for i := 1; i <= 21; i++ {
		fmt.Fprintf(&b, "e%d equ e%d+e%d\n", i, i-1, i-1)
	}
	b.WriteString("dat 0\n")
	hostileFixed = append(hostileFixed, b.String())
	// many labels in front of one FOR, many names in its body (the renaming of block labels is a lookup per token)
	b.Reset()
	for i := 0; i < 7000; i++ {
		fmt.Fprintf(&b, "l%d\n", i)
	}
	b.WriteString("i for 1\ndat 0" + strings.Repeat("+z", 7000) + "\nrof\nz equ 0\n")
	hostileFixed = append(hostileFixed, b.String())
	// one identifier of 256 KiB (the cost of a token is linear in its length)
	hostileFixed = append(hostileFixed, strings.Repeat("a", 256<<10)+" dat 0\n")
	hostileFixed = append(hostileFixed, "dat "+strings.Repeat("b", 256<<10)+"\n")
}

// estimateExpansion bounds the number of tokens after FOR expansion from above
// (product of FOR counts times tokens; a count is bounded by the product of its
// literals and of the bounds of the EQUs it names, an unknown identifier by the
// largest literal of the file).  Inputs above the bound are not generated:
// that blow-up is the documented semantics of FOR, not a defect.
func estimateExpansion(text string) float64 {
	toks := 0
	maxLit := 1.0
	fields := func(l string) []string {
		if k := strings.IndexByte(l, ';'); k >= 0 {
			l = l[:k]
		}
		return strings.FieldsFunc(l, func(r rune) bool {
			return !(r >= '0' && r <= '9' || r >= 'a' && r <= 'z' || r >= 'A' && r <= 'Z' || r == '_' || r == '.')
		})
	}
	lines := strings.Split(text, "\n")
	equ := map[string][]string{} // name -> fields of the value
	for _, l := range lines {
		fs := fields(l)
		// operators and other punctuation outside comments are tokens as well (a long run of '=' or '+' is a long
		// run of tokens, copied with every expansion of the block it sits in)
		code := l
		if k := strings.IndexByte(code, ';'); k >= 0 {
			code = code[:k]
		}
		for i := 0; i < len(code); i++ {
			if ch := code[i]; ch > ' ' && !(ch >= '0' && ch <= '9' || ch >= 'a' && ch <= 'z' || ch >= 'A' && ch <= 'Z' || ch == '_' || ch == '.') {
				toks++
			}
		}
		for _, f := range fs {
			toks++
			if v, err := strconv.ParseFloat(f, 64); err == nil && v > maxLit {
				maxLit = v
			}
		}
		toks += 4
		for k, f := range fs {
			if strings.EqualFold(f, "equ") {
				for _, name := range fs[:k] {
					equ[name] = fs[k+1:]
				}
			}
		}
	}
	// bound of a list of expression fields: product of the literals (>1) and of the bounds of the identifiers
	// (memoised per name: an EQU that mentions another one many times would otherwise cost branching^depth)
	memo := map[string]float64{}
	var bound func(fs []string, depth int) float64
	bound = func(fs []string, depth int) float64 {
		b := 1.0
		// numbers that are only separated by blanks read as ONE number ("3 100" is 3100): bound by the concatenation too
		cat := ""
		for _, f := range fs {
			if _, err := strconv.ParseFloat(f, 64); err == nil && !strings.ContainsAny(f, ".eExX_") {
				cat += f
			}
		}
		catv, _ := strconv.ParseFloat(cat, 64)
		for _, f := range fs {
			if v, err := strconv.ParseFloat(f, 64); err == nil {
				if v > 1 {
					b *= v
				}
			} else if val, ok := equ[f]; ok && depth < 8 {
				x, done := memo[f]
				if !done {
					memo[f] = maxLit // while it is being computed (a cycle): like an unknown identifier
					x = bound(val, depth+1)
					memo[f] = x
				}
				if x > 1 {
					b *= x
				}
			} else if u := strings.ToUpper(f); u == "CORESIZE" || u == "MAXLENGTH" || u == "MAXPROCESSES" || u == "MINDISTANCE" {
				b *= 1e6 // a predefined constant: whatever the configuration says (core sizes go far beyond)
			} else if !strings.EqualFold(f, "for") {
				b *= maxLit // unknown identifier: the largest literal of the file
			}
			if b > 1e12 {
				return b
			}
		}
		if catv > b {
			b = catv
		}
		return b
	}
	prod := 1.0
	for _, l := range lines {
		fs := fields(l)
		at := -1
		for k, f := range fs {
			if strings.EqualFold(f, "for") {
				at = k
			}
		}
		if at < 0 {
			continue
		}
		prod *= bound(fs[at+1:], 0)
		if prod > 1e12 {
			break
		}
	}
	return prod * float64(toks)
}

const maxExpansion = 50000

type textGen struct {
	seeds []string
}

func newTextGen() *textGen { return &textGen{seeds: repoSeeds()} }

// validProgram renders a random well-formed program.
func (tg *textGen) validProgram(r *Rng, d asm.Dialect, cfg asm.Config) (string, *asm.Prog) {
	o := asm.GenOpts{Cfg: cfg, MaxLines: 1 + r.Intn(10), UseLabels: r.Chance(2, 3), UseEqus: r.Chance(1, 2), UseConsts: r.Chance(1, 3), Meta: r.Chance(1, 3), EndLabel: true}
	if cfg.Length == cfg.CoreSize && cfg.Length <= 8 && r.Chance(1, 2) {
		o.ExactLines = cfg.Length
	}
	if r.Chance(1, 3) {
		o.UseFor = true
		o.MaxForExp = 8
	}
	p := asm.GenProg(r, o)
	st := randStyle(r, progNames(p))
	if o.UseFor {
		st.FloatEqus = false
	}
	return asm.Render(p, st), p
}

func mutateBytes(r *Rng, s string) string {
	b := []byte(s)
	n := 1 + r.Intn(4)
	for k := 0; k < n; k++ {
		pos := 0
		if len(b) > 0 {
			pos = r.Intn(len(b) + 1)
		}
		switch r.Intn(6) {
		case 0: // insert hostile bytes
			h := hostileBytes[r.Intn(len(hostileBytes))]
			b = append(b[:pos], append([]byte(h), b[pos:]...)...)
		case 1: // delete a byte
			if pos < len(b) {
				b = append(b[:pos], b[pos+1:]...)
			}
		case 2: // flip a byte
			if pos < len(b) {
				b[pos] = byte(r.Intn(256))
			}
		case 3: // duplicate a chunk
			if pos < len(b) {
				e := min(len(b), pos+1+r.Intn(20))
				chunk := append([]byte{}, b[pos:e]...)
				b = append(b[:e], append(chunk, b[e:]...)...)
			}
		case 4: // CR / CRLF / strip final newline
			switch r.Intn(3) {
			case 0:
				b = []byte(strings.ReplaceAll(string(b), "\n", "\r\n"))
			case 1:
				b = []byte(strings.ReplaceAll(string(b), "\n", "\r"))
			default:
				b = []byte(strings.TrimRight(string(b), "\n"))
			}
		default: // insert a vocabulary word
			w := " " + vocab[r.Intn(len(vocab))] + " "
			b = append(b[:pos], append([]byte(w), b[pos:]...)...)
		}
	}
	return string(b)
}

// mutateTokens changes whole tokens / lines.
func mutateTokens(r *Rng, s string) string {
	lines := strings.Split(s, "\n")
	n := 1 + r.Intn(3)
	for k := 0; k < n && len(lines) > 0; k++ {
		i := r.Intn(len(lines))
		switch r.Intn(7) {
		case 0: // replace a word
			f := strings.Fields(lines[i])
			if len(f) > 0 {
				f[r.Intn(len(f))] = strings.TrimSpace(vocab[r.Intn(len(vocab))])
				lines[i] = strings.Join(f, " ")
			}
		case 1: // duplicate the line
			lines = append(lines[:i+1], lines[i:]...)
		case 2: // delete the line
			lines = append(lines[:i], lines[i+1:]...)
		case 3: // swap two lines
			j := r.Intn(len(lines))
			lines[i], lines[j] = lines[j], lines[i]
		case 4: // join with the next line
			if i+1 < len(lines) {
				lines[i] = lines[i] + " " + lines[i+1]
				lines = append(lines[:i+1], lines[i+2:]...)
			}
		case 5: // insert a pseudo-op line
			l := []string{"rof", "i for 2", "j for 0", "x equ x", "x equ 1+", "org lbl", "end 1", "end", "lbl for 3", "for 2", ";assert x", ";assert 0", "k for 2 ; c",
				"x equ y+1", "y equ x+1", "i for x", "for y", "for nil", "for len", "q for true", "z equ nil"}[r.Intn(21)]
			lines = append(lines[:i], append([]string{l}, lines[i:]...)...)
		default: // insert an operator
			lines[i] += []string{" =", " |", " &", " ==", " (", " )", " ,", " :", " +", " -"}[r.Intn(10)]
		}
	}
	return strings.Join(lines, "\n")
}

func soup(r *Rng) string {
	var b strings.Builder
	n := r.Range(1, 60)
	for k := 0; k < n; k++ {
		b.WriteString(vocab[r.Intn(len(vocab))])
		if r.Chance(2, 3) {
			b.WriteByte(' ')
		}
		if r.Chance(1, 40) {
			b.WriteString(hostileBytes[r.Intn(len(hostileBytes))])
		}
	}
	return b.String()
}

// hostile returns one input and its class.
func (tg *textGen) hostile(idx int64, r *Rng, d asm.Dialect, cfg asm.Config) (string, string) {
	if idx < int64(len(hostileFixed)) {
		return hostileFixed[idx], "fixed"
	}
	for tries := 0; tries < 20; tries++ {
		var text, class string
		switch x := r.Intn(20); {
		case x < 4:
			text, _ = tg.validProgram(r, d, cfg)
			class = "valid"
		case x < 8:
			text, _ = tg.validProgram(r, d, cfg)
			text = mutateBytes(r, text)
			class = "byte-mutated"
		case x < 13:
			text, _ = tg.validProgram(r, d, cfg)
			text = mutateTokens(r, text)
			if r.Chance(1, 4) {
				text = mutateBytes(r, text)
			}
			class = "token-mutated"
		case x < 15 && len(tg.seeds) > 0:
			text = tg.seeds[r.Intn(len(tg.seeds))]
			switch r.Intn(3) {
			case 0:
				class = "repo-warrior"
			case 1:
				text = mutateBytes(r, text)
				class = "repo-warrior-byte-mutated"
			default:
				text = mutateTokens(r, text)
				class = "repo-warrior-token-mutated"
			}
		case x < 16 && d == asm.D88 && r.Chance(1, 3):
			// '88: pairs of consecutive lines with the same mnemonic whose operands mirror each other (the first
			// legal, the second not, or the other way round): each line is judged on its own
			var b strings.Builder
			for k, n := 0, 1+r.Intn(4); k < n; k++ {
				op := []string{"add", "sub", "mov", "cmp", "jmp", "jmz", "jmn", "djn", "spl", "slt", "dat"}[r.Intn(11)]
				if r.Bool() {
					op = strings.ToUpper(op)
				}
				x, y := r.Intn(9), r.Intn(9)
				ma, mb := []string{"#", "", "@", "<", "$"}[r.Intn(5)], []string{"", "#", "$", "@", "<"}[r.Intn(5)]
				l1 := fmt.Sprintf("%s %s%d, %s%d\n", op, ma, x, mb, y)
				l2 := fmt.Sprintf("%s %s%d, %s%d\n", op, mb, y, ma, x)
				if r.Bool() {
					l1, l2 = l2, l1
				}
				b.WriteString(l1 + l2)
			}
			text, class = b.String(), "88-mirror-twins"
		case x < 16 && r.Bool():
			// lines whose operands sit at the ends of the assembler's number range (the cost of a call follows the
			// size of the input, not the magnitude of its numbers - whatever the core size)
			lits := []string{"2147483647", "-2147483647", "2147483646", "-2147483646", "1073741824", "-1073741823", "-0", "0"}
			if r.Chance(1, 5) {
				lits = append(lits, "-2147483648", "2147483648", "4294967295") // beyond the range: the first of them ends the assembly
			}
			var b strings.Builder
			for k, n := 0, 1+r.Intn(60); k < n; k++ {
				op := []string{"dat", "mov", "add", "jmp", "djn", "spl"}[r.Intn(6)]
				fmt.Fprintf(&b, "%s %s%s, %s%s\n", op, []string{"", "#", "@", "<"}[r.Intn(4)], lits[r.Intn(len(lits))], []string{"", "#", "@", "<"}[r.Intn(4)], lits[r.Intn(len(lits))])
			}
			if r.Chance(1, 3) {
				fmt.Fprintf(&b, "org %s\n", lits[r.Intn(len(lits))])
			}
			text, class = b.String(), "extreme-literals"
		case x < 16:
			text = hostileFixed[r.Intn(len(hostileFixed))]
			if len(text) >= 2000 {
				continue // the big fixed inputs run once, as themselves
			}
			text = mutateBytes(r, text)
			class = "fixed-mutated"
		default:
			text = soup(r)
			class = "soup"
		}
		if estimateExpansion(text) <= maxExpansion {
			return text, class
		}
	}
	return "mov 0, 1\n", "valid"
}

func describeText(s string) string {
	if len(s) > 4000 {
		return fmt.Sprintf("%q ... (%d bytes) ... %q", s[:1500], len(s), s[len(s)-500:])
	}
	return s
}
