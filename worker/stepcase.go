package main

import (
	"fmt"

	g "github.com/bobertlo/gmars"

	"verif/ref/mars"
)

const numForms = int(mars.NumOps) * int(mars.NumMods) * int(mars.NumModes) * int(mars.NumModes) // 7616

func formOf(i mars.Insn) int {
	return ((int(i.Op)*int(mars.NumMods)+int(i.Mod))*int(mars.NumModes)+int(i.AM))*int(mars.NumModes) + int(i.BM)
}

func formInsn(f int) mars.Insn {
	bm := f % int(mars.NumModes)
	f /= int(mars.NumModes)
	am := f % int(mars.NumModes)
	f /= int(mars.NumModes)
	md := f % int(mars.NumMods)
	f /= int(mars.NumMods)
	return mars.Insn{Op: mars.Op(f), Mod: mars.Mod(md), AM: mars.Mode(am), BM: mars.Mode(bm)}
}

// StepCase is one single-warrior lock-step case: a whole core, a PC and k cycles.
type StepCase struct {
	Mode       int  // simulator mode (0..2): must not influence execution
	Len        int  // configured maximum warrior length: the simulator must ignore it
	Bystanders int  // 1: a never-started warrior stands in front of the one under test and a living helper behind it
	HelperAt   int  // cell of the helper (JMP $0)
	Queried    bool `json:",omitempty"` // the warrior's accessors (listing, name, length, queue...) are called between AddWarrior and SpawnWarrior: they must be pure
	M, R, W, P int
	PC         int
	K          int
	Core       []mars.Insn `json:"-"`
	CoreText   []string    `json:"core,omitempty"`
}

func (sc *StepCase) describe() *StepCase {
	if sc.M <= 64 {
		sc.CoreText = coreStr(sc.Core)
	} else {
		sc.CoreText = []string{fmt.Sprintf("(core of %d cells; cell at PC: %s)", sc.M, insnStr(sc.Core[sc.PC]))}
	}
	return sc
}

// boundary-biased field value
func fieldVal(r *Rng, m, rl, wl int) int {
	switch r.Intn(8) {
	case 0, 1, 2:
		return r.Intn(m)
	case 3:
		return r.Intn(min(m, 5))
	case 4:
		return (m - 1 - r.Intn(min(m, 4)) + m) % m
	default:
		l := []int{rl, wl, m}[r.Intn(3)]
		c := []int{0, 1, 2, l/2 - 1, l / 2, l/2 + 1, l - 1, l, l + 1, m - 2, m - 1, m - l/2, m - l/2 - 1, m - l/2 + 1}[r.Intn(14)]
		return ((c % m) + m) % m
	}
}

func randInsn(r *Rng, m, rl, wl int) mars.Insn {
	i := formInsn(r.Intn(numForms))
	i.A = fieldVal(r, m, rl, wl)
	i.B = fieldVal(r, m, rl, wl)
	return i
}

// nearEqualCore fills the core with two instructions that differ in very little: a template and one
// variant of it (no field, one field, two fields, or two enum fields changed the way a carry between the
// digits of a packed key would change them).  Whatever cells the operands select, whole-instruction
// comparisons then meet pairs that are equal or almost equal.
func nearEqualCore(sc *StepCase, r *Rng) {
	m := sc.M
	t := randInsn(r, m, sc.R, sc.W)
	enumMax := []int{int(mars.NumOps) - 1, int(mars.NumMods) - 1, int(mars.NumModes) - 1, int(mars.NumModes) - 1}
	get := func(i *mars.Insn, k int) int {
		switch k {
		case 0:
			return int(i.Op)
		case 1:
			return int(i.Mod)
		case 2:
			return int(i.AM)
		case 3:
			return int(i.BM)
		case 4:
			return i.A
		}
		return i.B
	}
	set := func(i *mars.Insn, k, v int) {
		switch k {
		case 0:
			i.Op = mars.Op(v)
		case 1:
			i.Mod = mars.Mod(v)
		case 2:
			i.AM = mars.Mode(v)
		case 3:
			i.BM = mars.Mode(v)
		case 4:
			i.A = v
		default:
			i.B = v
		}
	}
	size := func(k int) int {
		if k < 4 {
			return enumMax[k] + 1
		}
		return m
	}
	bump := func(i *mars.Insn, k int) {
		d := 1
		if r.Bool() {
			d = size(k) - 1
		}
		set(i, k, (get(i, k)+d)%size(k))
	}
	v := t
	switch r.Intn(4) {
	case 0: // identical
	case 1:
		bump(&v, r.Intn(6))
	case 2:
		a := r.Intn(6)
		b := (a + 1 + r.Intn(5)) % 6
		bump(&v, a)
		bump(&v, b)
	default:
		// carry: the low digit goes from its maximum to 0 while the high digit goes up by one (or back)
		lo := r.Intn(4)
		hi := (lo + 1 + r.Intn(3)) % 4
		set(&t, lo, enumMax[lo])
		v = t
		set(&v, lo, 0)
		set(&v, hi, (get(&t, hi)+1)%size(hi))
		if r.Bool() {
			t, v = v, t
		}
	}
	for i := range sc.Core {
		if r.Bool() {
			sc.Core[i] = t
		} else {
			sc.Core[i] = v
		}
	}
}

var bigMs = []int{17, 31, 64, 100, 800, 8000, 1 << 20}

// genStepCase builds the case for index idx.  The form at PC is enumerated
// (idx mod 7616), everything else is drawn from r.  limited forces R<M or W<M.
func genStepCase(idx int64, r *Rng, thorough, limited bool) *StepCase {
	sc := &StepCase{}
	switch {
	case r.Chance(1, 4000):
		sc.M = 1 << 20
	case r.Chance(1, 300):
		sc.M = 8000
	case r.Chance(1, 12):
		sc.M = bigMs[r.Intn(5)]
	default:
		sc.M = r.Range(3, 16)
	}
	m := sc.M
	if !limited && r.Chance(1, 4) {
		sc.R, sc.W = m, m
	} else {
		sc.R, sc.W = r.Range(1, m), r.Range(1, m)
		if r.Chance(1, 6) {
			sc.R = m
		} else if r.Chance(1, 6) {
			sc.W = m
		}
		if limited && sc.R == m && sc.W == m {
			if r.Bool() {
				sc.R = r.Range(1, m-1)
			} else {
				sc.W = r.Range(1, m-1)
			}
		}
	}
	sc.P = []int{1, 2, 3, m}[r.Intn(4)]
	if sc.P > 64 {
		sc.P = 64
	}
	sc.PC = r.Intn(m)
	sc.K = r.Range(1, 8)
	sc.Core = make([]mars.Insn, m)
	if m <= 4096 {
		for i := range sc.Core {
			sc.Core[i] = randInsn(r, m, sc.R, sc.W)
		}
	} else {
		// large cores: random cells around the PC and at the boundary distances, DAT elsewhere
		for i := range sc.Core {
			sc.Core[i] = mars.Empty
		}
		for n := 0; n < 400; n++ {
			var a int
			if n < 64 {
				a = (sc.PC + n - 32 + m) % m
			} else {
				a = (sc.PC + fieldVal(r, m, sc.R, sc.W)) % m
			}
			sc.Core[a] = randInsn(r, m, sc.R, sc.W)
		}
	}
	f := formInsn(int(idx % int64(numForms)))
	f.A, f.B = fieldVal(r, m, sc.R, sc.W), fieldVal(r, m, sc.R, sc.W)
	if m <= 4096 {
		isCmp := f.Op == mars.CMP || f.Op == mars.SEQ || f.Op == mars.SNE
		if (isCmp && r.Chance(1, 2)) || r.Chance(1, 16) {
			nearEqualCore(sc, r)
		}
	}
	sc.Core[sc.PC] = f
	if r.Chance(1, 3) {
		aimIndirect(sc, r)
	}
	if m >= 12 && m <= 4096 && r.Chance(1, 12) {
		aimSharedPointer(sc, r)
	}
	randModeLen(sc, r)
	return sc
}

// aimSharedPointer puts two to four storing instructions at PC, PC+1, ... whose indirect B operands all go through
// ONE pointer cell that none of them changes; the pointer's fields sit where the sum folds for some of them and not
// for the others.  Executed back to back (K = their number), each must resolve the chain from its own PC.
func aimSharedPointer(sc *StepCase, r *Rng) {
	m := sc.M
	n := 2 + r.Intn(3)
	d := n + 1 + r.Intn(min(m-n-2, 8))
	x := (sc.PC + d) % m
	lim := []int{sc.W, sc.R}[r.Intn(2)]
	off := func() int { return ((lim/2-d+r.Intn(n+2)-1)%m + m) % m }
	sc.Core[x] = mars.Insn{Op: mars.DAT, Mod: mars.MF, AM: mars.DIR, BM: mars.DIR, A: off(), B: off()}
	bm := []mars.Mode{mars.BIND, mars.AIND}[r.Intn(2)]
	if m >= 24 && r.Bool() {
		// the same, but the two stores are far apart: store, jump over a gap, store (three steps)
		gap := r.Range(2, min(m/2-2, max(2, lim)))
		far := r.Range(gap+3, min(m-2, gap+3+max(2, lim)))
		x = (sc.PC + far) % m
		sc.Core[x] = mars.Insn{Op: mars.DAT, Mod: mars.MF, AM: mars.DIR, BM: mars.DIR, A: ((lim/2-far+r.Intn(gap+4)-1)%m + m) % m, B: ((lim/2-far+r.Intn(gap+4)-1)%m + m) % m}
		st := func(at int) {
			ins := mars.Insn{Op: []mars.Op{mars.MOV, mars.ADD, mars.SUB, mars.MOV}[r.Intn(4)], Mod: mars.Mod(r.Intn(int(mars.NumMods))), AM: []mars.Mode{mars.IMM, mars.DIR}[r.Intn(2)], BM: bm}
			ins.A = r.Intn(2)
			ins.B = (x - at + 2*m) % m
			sc.Core[at%m] = ins
		}
		st(sc.PC)
		sc.Core[(sc.PC+1)%m] = mars.Insn{Op: mars.JMP, Mod: mars.MB, AM: mars.DIR, BM: mars.DIR, A: gap}
		st(sc.PC + 1 + gap)
		sc.K = 3
		return
	}
	for i := 0; i < n; i++ {
		ins := mars.Insn{Op: []mars.Op{mars.MOV, mars.ADD, mars.SUB, mars.MOV}[r.Intn(4)], Mod: mars.Mod(r.Intn(int(mars.NumMods))), AM: []mars.Mode{mars.IMM, mars.DIR}[r.Intn(2)], BM: bm}
		ins.A = r.Intn(2)
		ins.B = (x - (sc.PC + i) + 2*m) % m
		sc.Core[(sc.PC+i)%m] = ins
	}
	sc.K = n
}

func limitClass(sc *StepCase) string {
	switch {
	case sc.R == sc.M && sc.W == sc.M:
		return "R=W=M"
	case sc.R < sc.M && sc.W == sc.M:
		return "R<M"
	case sc.R == sc.M && sc.W < sc.M:
		return "W<M"
	case sc.R == sc.W:
		return "R=W<M"
	default:
		return "R!=W<M"
	}
}

func mClass(m int) string {
	switch {
	case m <= 16:
		return "tiny"
	case m <= 4096:
		return "mid"
	default:
		return "large"
	}
}

// newStepSim builds the real simulator for a step case through the public API.
func newStepSim(sc *StepCase, core []mars.Insn, pc int) (g.Simulator, g.Warrior, error) {
	cfg := g.SimulatorConfig{Mode: []g.SimulatorMode{g.ICWS94, g.ICWS88, g.NOP94}[sc.Mode%3], CoreSize: g.Address(sc.M), Processes: g.Address(sc.P), Cycles: 1000,
		ReadLimit: g.Address(sc.R), WriteLimit: g.Address(sc.W), Length: g.Address(sc.Len), Distance: 0}
	s, err := g.NewSimulator(cfg)
	if err != nil {
		return nil, nil, err
	}
	wi := 0
	if sc.Bystanders > 0 {
		// a warrior that is added but never started stands in front of the one under test ...
		if _, err := s.AddWarrior(&g.WarriorData{Name: "bystander", Code: []g.Instruction{{Op: g.DAT}}}); err != nil {
			return nil, nil, err
		}
		wi = 1
	}
	w, err := s.AddWarrior(&g.WarriorData{Code: toGCode(core), Start: pc})
	if err != nil {
		return nil, nil, err
	}
	if sc.Queried {
		// accessors are queries: whatever a caller asks before the start must not change what is loaded
		w.LoadCode()
		w.Name()
		w.Author()
		w.Length()
		w.Alive()
		w.Queue()
		w.NextPC()
		s.GetWarrior(wi)
		s.GetMem(0)
		s.WarriorCount()
		s.WarriorLivingCount()
	}
	if err := s.SpawnWarrior(wi, 0); err != nil {
		return nil, nil, err
	}
	if sc.Bystanders > 0 {
		// ... and a living helper (JMP $0, it sits still) behind it keeps the battle undecided
		if _, err := s.AddWarrior(&g.WarriorData{Name: "helper", Code: []g.Instruction{toG(helperInsn)}}); err != nil {
			return nil, nil, err
		}
		if err := s.SpawnWarrior(2, g.Address(sc.HelperAt)); err != nil {
			return nil, nil, err
		}
	}
	return s, w, nil
}

func circDist(a, b, m int) int {
	d := ((a-b)%m + m) % m
	if d > m-d {
		d = m - d
	}
	return d
}

func queueEq(q []g.Address, ref []int) bool {
	if len(q) != len(ref) {
		return false
	}
	for i := range q {
		if int(q[i]) != ref[i] {
			return false
		}
	}
	return true
}

// decoySim builds (and drops) another simulator with the same core size but different
// limits and process limit.  A simulator must be unaffected by the existence of others,
// so the monitors create such bystanders between building a simulator and stepping it.
func decoySim(sc *StepCase, r *Rng) {
	rl, wl := sc.M, sc.M
	if sc.R == sc.M && sc.W == sc.M || r.Chance(1, 3) {
		rl, wl = r.Range(1, sc.M), r.Range(1, sc.M)
	}
	cfg := g.SimulatorConfig{Mode: g.ICWS94, CoreSize: g.Address(sc.M), Processes: g.Address(r.Range(1, 9)), Cycles: 7,
		ReadLimit: g.Address(rl), WriteLimit: g.Address(wl)}
	if s, err := g.NewSimulator(cfg); err == nil && sc.M <= 64 && r.Chance(1, 4) {
		// let the bystander run a little as well
		s.AddWarrior(&g.WarriorData{Code: toGCode(sc.Core[:min(len(sc.Core), 4)]), Start: 0})
		s.SpawnWarrior(0, g.Address(r.Intn(sc.M)))
		s.RunCycle()
		s.Reset()
	}
}

// ---------------------------------------------------------------------------
// systematic strata (small-scope enumeration), in front of the random cases

// gridSize is the number of cases of the boundary grid: every form x A in {0,1,2,M-1} x
// B in {0,1,2,M-1} x six limit classes, each executed once at the PC of a tiny core.
const gridSize = int64(numForms) * 16 * 6

func genGridCase(gidx int64, r *Rng) *StepCase {
	sc := &StepCase{}
	form := int(gidx % int64(numForms))
	rest := int(gidx / int64(numForms))
	ai, bi, lc := rest%4, (rest/4)%4, rest/16
	m := r.Range(3, 8)
	sc.M = m
	switch lc {
	case 0:
		sc.R, sc.W = m, m
	case 1:
		sc.R, sc.W = 1, m
	case 2:
		sc.R, sc.W = m, 1
	case 3:
		sc.R, sc.W = 1, 1
	case 4:
		sc.R, sc.W = 2, 2
	default:
		sc.R, sc.W = m-1, r.Range(1, m)
	}
	sc.P = r.Range(1, 3)
	sc.PC = r.Intn(m)
	if r.Chance(1, 3) {
		sc.PC = m - 1
	}
	sc.K = r.Range(1, 2)
	sc.Core = make([]mars.Insn, m)
	for i := range sc.Core {
		sc.Core[i] = randInsn(r, m, sc.R, sc.W)
	}
	vals := []int{0, 1, 2 % m, m - 1}
	f := formInsn(form)
	f.A, f.B = vals[ai], vals[bi]
	sc.Core[sc.PC] = f
	randModeLen(sc, r)
	return sc
}

// genLargeCase: arithmetic and pointer chains on cores above 2^16 (products above 2^32, fields above 2^16)
func genLargeCase(r *Rng) *StepCase {
	sc := &StepCase{}
	sc.M = []int{32768, 50000, 60000, 65535, 65536, 65536, 65537, 70001, 100000, 1 << 17}[r.Intn(10)]
	if r.Chance(1, 25) {
		sc.M = []int{250000, 1 << 20}[r.Intn(2)]
	}
	if r.Chance(1, 40) {
		sc.M = []int{1<<21 + 1, 1<<21 + 7, 3000017}[r.Intn(3)] // beyond 2^21 cells (some hundred MiB per case: rare)
	}
	m := sc.M
	sc.R, sc.W = m, m
	if r.Chance(1, 2) {
		sc.R, sc.W = r.Range(1, m), r.Range(1, m)
		if r.Chance(1, 2) {
			sc.W = sc.R
		}
	}
	sc.P = 3
	sc.PC = r.Intn(m)
	sc.K = r.Range(1, 3)
	sc.Core = make([]mars.Insn, m)
	for i := range sc.Core {
		sc.Core[i] = mars.Empty
	}
	big := func() int {
		switch r.Intn(4) {
		case 0:
			return m - 1 - r.Intn(3)
		case 1:
			if m > 65537 {
				return 65536 + r.Intn(m-65536)
			}
			return m/2 + r.Intn(m/2)
		default:
			return r.Intn(m)
		}
	}
	for n := 0; n < 64; n++ {
		a := (sc.PC + n - 8 + m) % m
		ins := randInsn(r, m, sc.R, sc.W)
		ins.A, ins.B = big(), big()
		if n >= 8 && n < 16 {
			ins.A, ins.B = r.Intn(8), r.Intn(8) // near pointers so that operands are found among the big-valued cells
		}
		sc.Core[a] = ins
	}
	ops := []mars.Op{mars.MUL, mars.MUL, mars.MUL, mars.ADD, mars.SUB, mars.DIV, mars.MOD, mars.MOV, mars.DJN, mars.SLT}
	f := mars.Insn{Op: ops[r.Intn(len(ops))], Mod: mars.Mod(r.Intn(int(mars.NumMods))), AM: mars.Mode(r.Intn(int(mars.NumModes))), BM: mars.Mode(r.Intn(int(mars.NumModes)))}
	f.A, f.B = r.Intn(6), r.Intn(6)
	if r.Chance(1, 2) {
		// first-level pointers anywhere, boundary-biased (the pointed-to cell is filled below)
		f.A, f.B = fieldVal(r, m, sc.R, sc.W), fieldVal(r, m, sc.R, sc.W)
		for _, x := range []int{f.A, f.B} {
			a := (sc.PC + mars.Fold(x, sc.R, m)) % m
			if a != sc.PC {
				ins := randInsn(r, m, sc.R, sc.W)
				ins.A, ins.B = big(), big()
				sc.Core[a] = ins
			}
			a = (sc.PC + mars.Fold(x, sc.W, m)) % m
			if a != sc.PC {
				ins := randInsn(r, m, sc.R, sc.W)
				ins.A, ins.B = big(), big()
				sc.Core[a] = ins
			}
		}
	} else if r.Chance(1, 2) {
		f.AM = mars.IMM
		f.A = big()
	}
	if r.Chance(1, 3) {
		f.BM = mars.IMM
		f.B = big()
	}
	sc.Core[sc.PC] = f
	if r.Chance(1, 2) {
		aimIndirect(sc, r)
	}
	randModeLen(sc, r)
	return sc
}

// aimIndirect rewrites the pointer cell of an indirect operand of the instruction at PC so that the
// second-level pointer sum lands on a discontinuity of Fold: k*L-1, k*L, k*L+1, k*L+L/2-1, k*L+L/2,
// k*L+L/2+1 (L = read or write limit, k = 1..3).  A generic boundary-aimed construction: it follows
// the draft's Fold, not any implementation.
func aimIndirect(sc *StepCase, r *Rng) bool {
	m := sc.M
	ins := sc.Core[sc.PC]
	type opnd struct {
		mode mars.Mode
		num  int
	}
	cands := []opnd{{ins.AM, ins.A}, {ins.BM, ins.B}}
	o := cands[r.Intn(2)]
	if o.mode == mars.IMM || o.mode == mars.DIR {
		o = cands[0]
		if o.mode == mars.IMM || o.mode == mars.DIR {
			o = cands[1]
		}
	}
	if o.mode == mars.IMM || o.mode == mars.DIR {
		return false
	}
	l := sc.R
	if r.Bool() {
		l = sc.W
	}
	first := mars.Fold(o.num, l, m) // folded first-level pointer (as the draft computes it)
	cell := (sc.PC + first) % m
	if cell == sc.PC {
		return false
	}
	k := r.Range(1, 3)
	d := []int{-1, 0, 1, l/2 - 1, l / 2, l/2 + 1}[r.Intn(6)]
	target := k*l + d
	v := target - first
	if v < 0 || v >= m {
		return false
	}
	useA := o.mode == mars.AIND || o.mode == mars.ADEC || o.mode == mars.AINC
	// pre-decrement modes decrement the field before it is used: compensate
	if o.mode == mars.ADEC || o.mode == mars.BDEC {
		v = (v + 1) % m
	}
	if useA {
		sc.Core[cell].A = v
	} else {
		sc.Core[cell].B = v
	}
	return true
}

// randModeLen draws the configuration fields that must not influence execution:
// the rule-set mode and the maximum warrior length.
func randModeLen(sc *StepCase, r *Rng) {
	if r.Chance(1, 2) {
		sc.Mode = r.Intn(3)
	}
	if r.Chance(1, 3) {
		sc.Len = []int{1, sc.M / 4, sc.M / 2, sc.M}[r.Intn(4)]
	}
	if r.Chance(1, 5) && sc.M <= 4096 {
		sc.Queried = true
	}
	if r.Chance(1, 6) && sc.M <= 4096 {
		sc.Bystanders = 1
		sc.HelperAt = (sc.PC + 1 + r.Intn(sc.M-1)) % sc.M
		sc.Core[sc.HelperAt] = helperInsn
	}
}

// helperInsn is the code of the helper warrior: it jumps to itself for ever
var helperInsn = mars.Insn{Op: mars.JMP, Mod: mars.MB, AM: mars.DIR, BM: mars.DIR, A: 0, B: 0}

// refFor builds the reference battle that mirrors newStepSim.
func (sc *StepCase) refFor(core []mars.Insn, pc int) (*mars.Battle, int) {
	ref := mars.NewBattle(sc.M, sc.P, 1000, sc.R, sc.W)
	wi := 0
	if sc.Bystanders > 0 {
		ref.Add(mars.WarriorCode{Code: []mars.Insn{mars.Empty}})
		wi = 1
	}
	ref.Add(mars.WarriorCode{Code: core, Start: pc})
	ref.Spawn(wi, 0)
	if sc.Bystanders > 0 {
		ref.Add(mars.WarriorCode{Code: []mars.Insn{helperInsn}})
		ref.Spawn(2, sc.HelperAt)
	}
	return ref, wi
}
