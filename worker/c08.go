package main

import (
	"fmt"
	"strings"

	g "github.com/bobertlo/gmars"

	"verif/ref/asm"
)

func init() { props["C08"] = runC08 }

// treeShape describes the block structure of a program.
func treeShape(items []asm.Item) string {
	var b strings.Builder
	for _, it := range items {
		switch x := it.(type) {
		case *asm.Instr:
			b.WriteByte('.')
		case *asm.For:
			lbl := ""
			if len(x.Labels) > 0 {
				lbl = "L"
			}
			cnt := "e"
			if l, ok := x.Count.(asm.Lit); ok {
				cnt = fmt.Sprint(l.V)
			}
			b.WriteString(lbl + "F" + cnt + "(" + treeShape(x.Body) + ")")
		}
	}
	return b.String()
}

// exprUses reports whether e mentions name.
func exprUses(e asm.Expr, names map[string]bool) bool {
	switch x := e.(type) {
	case asm.Ref:
		return names[x.Name]
	case asm.Un:
		return exprUses(x.X, names)
	case asm.Bin:
		return exprUses(x.L, names) || exprUses(x.R, names)
	case asm.Par:
		return exprUses(x.X, names)
	}
	return false
}

// labelledNestedFirst lists (label, counter, mustWork) of blocks whose body starts with a nested FOR.
// mustWork is "1" when the shape is one gmars handles (the block is repeated exactly once and the
// label is only referenced inside the first nested block): a failure there is NOT the known finding.
func labelledNestedFirst(items []asm.Item) [][3]string {
	var out [][3]string
	var refsIn func(items []asm.Item, l string) bool
	refsIn = func(items []asm.Item, l string) bool {
		names := map[string]bool{l: true}
		for _, it := range items {
			switch x := it.(type) {
			case *asm.Instr:
				if exprUses(x.A.E, names) || (x.B != nil && exprUses(x.B.E, names)) {
					return true
				}
			case *asm.For:
				if exprUses(x.Count, names) || refsIn(x.Body, l) {
					return true
				}
			case *asm.Org:
				if exprUses(x.E, names) {
					return true
				}
			}
		}
		return false
	}
	for _, it := range items {
		if f, ok := it.(*asm.For); ok {
			if len(f.Labels) > 0 && len(f.Body) > 0 {
				if _, ok := f.Body[0].(*asm.For); ok {
					for _, l := range f.Labels {
						// gmars copes iff, at every level where the (renamed) label ends up in front of a
						// nested-first block, that block is repeated exactly once and the label is only
						// referenced inside its first nested block
						var fine func(b *asm.For) bool
						fine = func(b *asm.For) bool {
							inner, nested := b.Body[0].(*asm.For)
							if !nested {
								return true
							}
							c, isLit := b.Count.(asm.Lit)
							return isLit && c.V == 1 && !refsIn(b.Body[1:], l) && len(inner.Body) > 0 && inner.Counter != "" && fine(inner)
						}
						must := "0"
						if fine(f) {
							must = "1"
						}
						out = append(out, [3]string{l, f.Counter, must})
					}
				}
			}
			out = append(out, labelledNestedFirst(f.Body)...)
		}
	}
	return out
}

type forFacts struct {
	counterInArith bool
	outsideRefs    []string // block labels referenced from outside their block
	insideRefs     int
	nested         bool
}

func analyseFor(p *asm.Prog) forFacts {
	var f forFacts
	blockLabels := map[string]bool{}
	var collect func(items []asm.Item, depth int)
	collect = func(items []asm.Item, depth int) {
		for _, it := range items {
			if x, ok := it.(*asm.For); ok {
				for _, l := range x.Labels {
					blockLabels[l] = true
				}
				if depth > 0 {
					f.nested = true
				}
				collect(x.Body, depth+1)
			}
		}
	}
	collect(p.Items, 0)
	var walk func(items []asm.Item, inBlockLabels map[string]bool, ctrs map[string]bool)
	walk = func(items []asm.Item, in map[string]bool, ctrs map[string]bool) {
		for _, it := range items {
			switch x := it.(type) {
			case *asm.Instr:
				ops := []asm.Expr{x.A.E}
				if x.B != nil {
					ops = append(ops, x.B.E)
				}
				for _, e := range ops {
					if _, plain := e.(asm.Ref); !plain && exprUses(e, ctrs) {
						f.counterInArith = true
					}
					for l := range blockLabels {
						if exprUses(e, map[string]bool{l: true}) {
							if in[l] {
								f.insideRefs++
							} else {
								f.outsideRefs = append(f.outsideRefs, l)
							}
						}
					}
				}
			case *asm.For:
				in2 := map[string]bool{}
				for k := range in {
					in2[k] = true
				}
				for _, l := range x.Labels {
					in2[l] = true
				}
				c2 := map[string]bool{}
				for k := range ctrs {
					c2[k] = true
				}
				if x.Counter != "" {
					c2[x.Counter] = true
				}
				walk(x.Body, in2, c2)
			case *asm.Org:
				for l := range blockLabels {
					if exprUses(x.E, map[string]bool{l: true}) {
						f.outsideRefs = append(f.outsideRefs, l)
					}
				}
			}
		}
	}
	walk(p.Items, map[string]bool{}, map[string]bool{})
	return f
}

func runC08(c *Ctx) {
	defer withDisturb(c)()
	runPinned(c, "C08")
	n := int64(72000)
	if c.Thorough() {
		n = 3000000
	}
	c.Cases(n, func(idx int64, r *Rng) {
		d := asm.D94
		if r.Chance(1, 4) {
			d = asm.D88
		}
		cfg := randAsmConfig(r, d)
		cfg.Length = 300
		if cfg.CoreSize < 400 {
			cfg.CoreSize = 8000
		}
		cfg.Distance = 100
		if r.Chance(1, 6) {
			// a small core: what is fenced off by never-expanded blocks may well be longer than the core
			cfg.CoreSize = r.Range(24, 80)
			cfg.Length = cfg.CoreSize / 2
			cfg.Distance = 0
			c.Inc("programs_for_small_cores")
		}
		stratumBig := r.Chance(1, 5) // 13..40 expansions
		outside := r.Chance(1, 6)    // references to block labels from outside the block
		o := asm.GenOpts{Cfg: cfg, MaxLines: 2 + r.Intn(8), UseLabels: true, UseEqus: r.Chance(1, 2), UseFor: true, MaxForExp: 10, OutsideRef: outside, NestedLabel: r.Chance(1, 6)}
		if stratumBig {
			o.MaxForExp = 38
			o.MaxLines = 6 + r.Intn(10)
		}
		var p *asm.Prog
		if idx < int64(len(pinnedFor)) {
			p = pinnedFor[idx](cfg)
		} else {
			p = asm.GenProg(r, o)
		}
		flat, st, uerr := asm.Unroll(p)
		if uerr != nil || st.Blocks == 0 || st.Expansions > 40 {
			c.Inc("skipped_outside_domain")
			c.res.Evaluations--
			return
		}
		mn, merr := p.Meaning()
		if merr != nil {
			c.Inc("skipped_outside_domain")
			c.res.Evaluations--
			return
		}
		facts := analyseFor(p)
		gc := gcfg(cfg, g.ICWS94)
		names := progNames(p)
		style := randStyle(r, names)
		style.FloatEqus = false
		if idx < int64(len(pinnedFor)) {
			style = &asm.Style{R: r, Spacing: 1, WithEnd: true}
		}
		text := asm.Render(p, style)
		flatText := asm.Render(flat, &asm.Style{R: r, Spacing: 1, WithEnd: true})
		c.Inc("programs")
		c.Count("expansions_total", int64(st.Expansions))
		c.Inc(fmt.Sprintf("expansions_bucket_%s", map[bool]string{true: "13..40", false: "0..12"}[st.Expansions > 12]))
		c.Inc(fmt.Sprintf("nesting_depth_%d", st.MaxDepth))
		c.Count("zero_counts", int64(st.ZeroCounts))
		c.Count("block_label_refs_inside", int64(facts.insideRefs))
		c.Count("block_label_refs_outside", int64(len(facts.outsideRefs)))
		cs := func(note string) interface{} {
			k := mkAsmCase(gc, text, mn, note)
			return map[string]interface{}{"case": k, "unrolled_text": flatText, "expansions": st.Expansions}
		}

		// the manual unrolling must always assemble to the meaning
		wdU, errU, pmU := compile(flatText, gc)
		if pmU != "" {
			c.Violate("C08:panic-unrolled:"+panicSite(pmU), pmU, cs(""))
			return
		}
		if errU != nil {
			c.Violate("C08:unrolled-rejected", fmt.Sprintf("the manual unrolling was rejected: %v", errU), cs(""))
			return
		}
		if dd := diffCode(wdU.Code, mn.Code); dd != "" || wdU.Start != mn.Start {
			c.Violate("C08:unrolled-vs-meaning", fmt.Sprintf("the manual unrolling assembles differently from its meaning: %s start %d/%d", dd, wdU.Start, mn.Start), cs(""))
			return
		}

		wd, err, pm := compile(text, gc)
		if pm != "" {
			c.Violate("C08:panic:"+panicSite(pm), pm, cs(""))
			return
		}
		if err != nil {
			// the only accepted failures are exactly the two listed known findings
			if st.Expansions > 12 && err.Error() == "for loop depth exceeded" {
				c.KnownHit("C08:more-than-12-expansions:for-loop-depth-exceeded", fmt.Sprintf("a program with %d FOR expansions (> 12) is rejected with %q although its manual unrolling assembles", st.Expansions, err), cs(""))
				c.Inc("known_finding_depth")
				return
			}
			for _, l := range facts.outsideRefs {
				name := l
				if style.Rename != nil {
					if rn, ok := style.Rename[l]; ok {
						name = rn
					}
				}
				if strings.HasSuffix(err.Error(), fmt.Sprintf("symbol '%s' undefined", name)) {
					c.KnownHit("C08:block-label-referenced-outside:symbol-undefined", fmt.Sprintf("block label %q is referenced from outside its FOR block and the program is rejected with %q", name, err), cs(""))
					c.Inc("known_finding_outside_label")
					return
				}
			}
			rn := func(n string) string {
				if style.Rename != nil {
					if x, ok := style.Rename[n]; ok {
						return x
					}
				}
				return n
			}
			for _, lc := range labelledNestedFirst(p.Items) {
				msg := err.Error()
				k := strings.Index(msg, "symbol '__for_")
				if lc[2] == "0" && k >= 0 && strings.HasSuffix(msg, fmt.Sprintf("_%s_%s' undefined", rn(lc[1]), rn(lc[0]))) {
					c.KnownHit("C08:block-label-before-nested-for:symbol-undefined", fmt.Sprintf("block label %q stands before a block whose body starts with a nested FOR; the program is rejected with %q", rn(lc[0]), err), cs(""))
					c.Inc("known_finding_label_before_nested_for")
					return
				}
			}
			c.Violate("C08:rejected", fmt.Sprintf("a program with FOR blocks was rejected (%v) although its manual unrolling assembles", err), cs(""))
			return
		}
		if dd := diffCode(wd.Code, mn.Code); dd != "" {
			if idx == pinnedCounterlessIdx && len(wd.Code) == 2 && wd.Code[0].A == 1 && wd.Code[1].A == 2 && wd.Code[0].B == 1 && wd.Code[1].B == 1 {
				// exactly the listed wrong output of the pinned witness: the label was taken for the counter of the inner block
				c.KnownHit("C08:block-label-before-counterless-nested-for:label-becomes-counter", "pinned witness 'top i for 1 / for 2 / dat #top, #i / rof / rof' assembles to DAT #1,#1 / DAT #2,#1 instead of DAT #0,#1 / DAT #-1,#1: the renamed block label is taken for the counter of the counter-less inner block", cs(""))
				return
			}
			if idx == pinnedEquInBodyIdx && len(wd.Code) == 3 && wd.Code[1].A == 3 && wd.Code[2].A == 3 && wd.Code[1].B == 3 && wd.Code[2].B == 1 {
				// exactly the listed wrong output of the pinned witness: the block label became another name of the EQU
				c.KnownHit("C08:block-label-before-equ-line-in-body:label-becomes-equ-name", "pinned witness 'dat 0 / top i for 1 / step equ 3 / jmp top, step / jmp top, i / rof' assembles to JMP $3,$3 / JMP $3,$1 instead of JMP $0,$3 / JMP $-1,$1: the renamed block label is written in front of the EQU line and becomes a second name of that EQU", cs(""))
				return
			}
			c.Violate("C08:code:"+diffClass(dd), "FOR program vs manual unrolling: "+dd, cs(""))
			return
		}
		if wd.Start != mn.Start {
			c.Violate("C08:start", fmt.Sprintf("entry point: FOR program %d, unrolling %d", wd.Start, mn.Start), cs(""))
			return
		}
		c.Inc("three_way_agreements")
		c.Count("instructions_compared", int64(len(mn.Code)))
		if st.Blocks >= 2 || facts.nested || facts.counterInArith {
			c.Nontrivial(treeShape(p.Items))
			c.Inc("nontrivial_programs")
		}
		if facts.counterInArith {
			c.Inc("programs_with_counter_in_arithmetic")
		}
		if idx%997 == 0 || idx == 5 {
			c.Sample(cs(""))
		}
	})
}

const pinnedCounterlessIdx = 3
const pinnedEquInBodyIdx = 4

// pinned witnesses (known_findings.txt): run on every invocation as case 0, 1, ...
var pinnedFor = []func(cfg asm.Config) *asm.Prog{
	// known finding: 13 sibling blocks => "for loop depth exceeded"
	func(cfg asm.Config) *asm.Prog {
		p := &asm.Prog{Cfg: cfg}
		for k := 0; k < 13; k++ {
			p.Items = append(p.Items, &asm.For{Counter: "i", Count: asm.Lit{V: 1}, Body: []asm.Item{&asm.Instr{Op: "dat", A: asm.Operand{Mode: '#', E: asm.Ref{Name: "i"}}, B: &asm.Operand{Mode: '#', E: asm.Lit{V: k}}}}})
		}
		return p
	},
	// known finding: block label referenced from outside the block
	func(cfg asm.Config) *asm.Prog {
		p := &asm.Prog{Cfg: cfg}
		p.Items = append(p.Items,
			&asm.For{Labels: []string{"tgt"}, Counter: "i", Count: asm.Lit{V: 2}, Body: []asm.Item{&asm.Instr{Op: "dat", A: asm.Operand{Mode: '#', E: asm.Ref{Name: "i"}}, B: &asm.Operand{Mode: '#', E: asm.Ref{Name: "tgt"}}}}},
			&asm.Instr{Op: "jmp", A: asm.Operand{Mode: '$', E: asm.Ref{Name: "tgt"}}})
		return p
	},
	// known finding: block label before a block that starts with a nested FOR
	func(cfg asm.Config) *asm.Prog {
		p := &asm.Prog{Cfg: cfg}
		inner := &asm.For{Counter: "j", Count: asm.Lit{V: 2}, Body: []asm.Item{&asm.Instr{Op: "dat", A: asm.Operand{Mode: '#', E: asm.Ref{Name: "i"}}, B: &asm.Operand{Mode: '#', E: asm.Ref{Name: "top"}}}}}
		p.Items = append(p.Items, &asm.For{Labels: []string{"top"}, Counter: "i", Count: asm.Lit{V: 2}, Body: []asm.Item{inner}})
		return p
	},
	// known finding (pinned input only): label before a block that starts with a COUNTER-LESS nested FOR
	func(cfg asm.Config) *asm.Prog {
		p := &asm.Prog{Cfg: cfg}
		inner := &asm.For{Count: asm.Lit{V: 2}, Body: []asm.Item{&asm.Instr{Op: "dat", A: asm.Operand{Mode: '#', E: asm.Ref{Name: "top"}}, B: &asm.Operand{Mode: '#', E: asm.Ref{Name: "i"}}}}}
		p.Items = append(p.Items, &asm.For{Labels: []string{"top"}, Counter: "i", Count: asm.Lit{V: 1}, Body: []asm.Item{inner}})
		return p
	},
	// known finding (pinned input only): label before a block whose body starts with an EQU line
	func(cfg asm.Config) *asm.Prog {
		p := &asm.Prog{Cfg: cfg}
		jmp := func(b string) *asm.Instr {
			return &asm.Instr{Op: "jmp", A: asm.Operand{E: asm.Ref{Name: "top"}}, B: &asm.Operand{E: asm.Ref{Name: b}}}
		}
		p.Items = append(p.Items, &asm.Instr{Op: "dat", A: asm.Operand{E: asm.Lit{V: 0}}},
			&asm.For{Labels: []string{"top"}, Counter: "i", Count: asm.Lit{V: 1}, Body: []asm.Item{&asm.Equ{Name: "step", E: asm.Lit{V: 3}}, jmp("step"), jmp("i")}})
		return p
	},
	// the README examples (must hold)
	func(cfg asm.Config) *asm.Prog {
		p := &asm.Prog{Cfg: cfg}
		p.Items = append(p.Items, &asm.For{Labels: []string{"start"}, Counter: "i", Count: asm.Lit{V: 2}, Body: []asm.Item{&asm.Instr{Op: "dat", A: asm.Operand{E: asm.Ref{Name: "start"}}, B: &asm.Operand{E: asm.Ref{Name: "i"}}}}})
		return p
	},
	func(cfg asm.Config) *asm.Prog {
		p := &asm.Prog{Cfg: cfg}
		inner := &asm.For{Counter: "j", Count: asm.Lit{V: 2}, Body: []asm.Item{&asm.Instr{Op: "dat", A: asm.Operand{E: asm.Ref{Name: "i"}}, B: &asm.Operand{E: asm.Ref{Name: "j"}}}}}
		p.Items = append(p.Items, &asm.For{Counter: "i", Count: asm.Lit{V: 2}, Body: []asm.Item{inner}})
		return p
	},
}
