package main

import (
	"fmt"
	"sort"
	"strings"

	g "github.com/bobertlo/gmars"

	"verif/ref/mars"
)

func init() { props["C15"] = runC15 }

// taskObs is what the report-stream monitor saw of one task.
type taskObs struct {
	w, pc     int
	pre       []g.Instruction // core at the moment of the TaskPop report
	touched   map[int][]g.ReportType
	taskTerm  int
	warTerm   int
	badReport string
}

// streamMon is my own Reporter: it cuts the stream into tasks at TaskPop.
type streamMon struct {
	s      g.Simulator
	m      int
	nwar   func() int
	tasks  []*taskObs
	cur    *taskObs
	all    []g.Report // every report since the last drain (for the recorder fold)
	bad    string     // first malformed report
	resets int
}

func (sm *streamMon) Report(r g.Report) {
	sm.all = append(sm.all, r)
	switch r.Type {
	case g.SimReset:
		sm.resets++
		sm.cur = nil
		return
	case g.CycleStart, g.CycleEnd:
		if r.Type == g.CycleEnd {
			sm.cur = nil
		}
		return
	}
	if int(r.Address) >= sm.m && sm.bad == "" {
		sm.bad = fmt.Sprintf("report type %d carries address %d >= core size %d", r.Type, r.Address, sm.m)
	}
	if (r.WarriorIndex < 0 || r.WarriorIndex >= sm.nwar()) && sm.bad == "" {
		sm.bad = fmt.Sprintf("report type %d carries warrior index %d (there are %d warriors)", r.Type, r.WarriorIndex, sm.nwar())
	}
	switch r.Type {
	case g.WarriorTaskPop:
		t := &taskObs{w: r.WarriorIndex, pc: int(r.Address), touched: map[int][]g.ReportType{}}
		t.pre = make([]g.Instruction, sm.m)
		for a := 0; a < sm.m; a++ {
			t.pre[a] = sm.s.GetMem(g.Address(a))
		}
		sm.tasks = append(sm.tasks, t)
		sm.cur = t
	case g.WarriorWrite, g.WarriorIncrement, g.WarriorDecrement:
		if sm.cur == nil || sm.cur.w != r.WarriorIndex {
			if sm.bad == "" {
				sm.bad = fmt.Sprintf("write/inc/dec report at %d by warrior %d outside a task of that warrior", r.Address, r.WarriorIndex)
			}
			return
		}
		a := int(r.Address) % sm.m
		sm.cur.touched[a] = append(sm.cur.touched[a], r.Type)
	case g.WarriorTaskTerminate:
		if sm.cur != nil && sm.cur.w == r.WarriorIndex {
			sm.cur.taskTerm++
		} else if sm.bad == "" {
			sm.bad = "task-terminate report outside a task of that warrior"
		}
	case g.WarriorTerminate:
		if sm.cur != nil && sm.cur.w == r.WarriorIndex {
			sm.cur.warTerm++
		} else if sm.bad == "" {
			sm.bad = "warrior-terminate report outside a task of that warrior"
		}
	}
}

type cellState struct {
	kind  g.CoreState
	owner int
}

// foldStream is an independent fold of a report stream into "last operation per address".
func foldStream(state []cellState, reports []g.Report, m int, lengths []int, reads bool) {
	for _, r := range reports {
		a := int(r.Address) % m
		switch r.Type {
		case g.SimReset:
			for i := range state {
				state[i] = cellState{g.CoreEmpty, -1}
			}
		case g.WarriorSpawn:
			if r.WarriorIndex >= 0 && r.WarriorIndex < len(lengths) {
				for j := 0; j < lengths[r.WarriorIndex]; j++ {
					state[(a+j)%m] = cellState{g.CoreWritten, r.WarriorIndex}
				}
			}
		case g.WarriorTaskPop:
			state[a] = cellState{g.CoreExecuted, r.WarriorIndex}
		case g.WarriorTaskTerminate:
			state[a] = cellState{g.CoreTerminated, r.WarriorIndex}
		case g.WarriorWrite:
			state[a] = cellState{g.CoreWritten, r.WarriorIndex}
		case g.WarriorIncrement:
			state[a] = cellState{g.CoreIncremented, r.WarriorIndex}
		case g.WarriorDecrement:
			state[a] = cellState{g.CoreDecremented, r.WarriorIndex}
		case g.WarriorRead:
			if reads {
				state[a] = cellState{g.CoreRead, r.WarriorIndex}
			}
		}
	}
}

// refCell is the reference's view of the last task that touched a cell.
type refCell struct {
	owner int
	kinds map[g.CoreState]bool
	alt   *refCell // also acceptable: the touch by `owner` left the content unchanged, so naming it is optional
}

func (rc *refCell) accepts(k g.CoreState, o int) bool {
	for x := rc; x != nil; x = x.alt {
		if o == x.owner && (x.owner < 0 || x.kinds[k]) {
			return true
		}
	}
	return false
}

func runC15(c *Ctx) {
	n := int64(96000)
	if c.Thorough() {
		n = 6000000
	}
	c.Cases(n, func(idx int64, r *Rng) {
		if idx%1201 == 1200 {
			resetMarathon(c, r)
			return
		}
		bc := genBattle(r, 4, r.Chance(1, 3))
		if bc.C > 150 {
			bc.C = r.Range(1, 150)
		}
		m := bc.M
		for _, w := range bc.Warriors {
			if r.Chance(1, 3) {
				w.Off += m * r.Range(1, 2) // offsets >= M
			}
		}
		nw := len(bc.Warriors)
		lengths := make([]int, nw)
		for i, w := range bc.Warriors {
			lengths[i] = len(w.Code)
		}
		sm := &streamMon{m: m}
		var s g.ReportingSimulator
		var ws []g.Warrior
		var rec *g.StateRecorder
		var err error
		twin, twinLate := r.Chance(1, 2), r.Bool()
		viaPlain := r.Chance(1, 4)
		var recCopy g.StateRecorder // a copy of the recorder taken right after it was made (front ends keep one by value)
		var s2 g.ReportingSimulator
		var rec2 *g.StateRecorder
		setup := func() {
			if viaPlain {
				// the other constructor: what it returns can carry listeners as well (when it can, they must be served)
				var plain g.Simulator
				plain, err = g.NewSimulator(bc.config())
				if err != nil {
					return
				}
				rs, ok := plain.(g.ReportingSimulator)
				if !ok {
					viaPlain = false
					s, err = g.NewReportingSimulator(bc.config())
				} else {
					s = rs
				}
			} else {
				s, err = g.NewReportingSimulator(bc.config())
			}
			if err != nil {
				return
			}
			sm.s = s
			sm.nwar = s.WarriorCount
			rec = g.NewStateRecorder(s)
			recCopy = *rec
			s.AddReporter(sm)
			s.AddReporter(rec)
			for _, w := range bc.Warriors {
				gw, e := s.AddWarrior(&g.WarriorData{Name: "w", Code: toGCode(w.Code), Start: w.Start})
				if e != nil {
					err = e
					return
				}
				ws = append(ws, gw)
			}
			for i, w := range bc.Warriors {
				if e := s.SpawnWarrior(i, g.Address(w.Off)); e != nil {
					err = e
					return
				}
			}
			if twin {
				// a second, identical simulator whose ONLY listener is a state recorder that also records reads;
				// read recording is switched on before or after the recorder is attached
				s2, err = g.NewReportingSimulator(bc.config())
				if err != nil {
					return
				}
				rec2 = g.NewStateRecorder(s2)
				if twinLate {
					s2.AddReporter(rec2)
					rec2.SetRecordRead(true)
				} else {
					rec2.SetRecordRead(true)
					s2.AddReporter(rec2)
				}
				for _, w := range bc.Warriors {
					if _, e := s2.AddWarrior(&g.WarriorData{Name: "w", Code: toGCode(w.Code), Start: w.Start}); e != nil {
						err = e
						return
					}
				}
				for i, w := range bc.Warriors {
					if e := s2.SpawnWarrior(i, g.Address(w.Off)); e != nil {
						err = e
						return
					}
				}
			}
		}
		if p, msg := try(setup); p || err != nil {
			c.Violate("C15:setup:"+panicSite(msg), fmt.Sprintf("%v %s", err, msg), bc.describe())
			return
		}
		ref := bc.newRef(0)
		ref.Rec = true
		var traces []mars.TaskTrace
		var pres [][]mars.Insn
		prev := append([]mars.Insn(nil), ref.Core...)
		ref.Trace = func(t mars.TaskTrace) {
			traces = append(traces, t)
			pres = append(pres, prev)
			prev = append([]mars.Insn(nil), ref.Core...)
		}
		// fold states
		mine := make([]cellState, m) // fold of the real stream
		refst := make([]refCell, m)  // fold of the reference events
		for i := range mine {
			mine[i] = cellState{g.CoreEmpty, -1}
			refst[i] = refCell{owner: -1}
		}
		for i, w := range bc.Warriors {
			for j := range w.Code {
				refst[(w.Off+j)%m] = refCell{owner: i, kinds: map[g.CoreState]bool{g.CoreWritten: true}}
			}
		}
		viol := func(sig, d string) {
			c.Violate("C15:"+sig, d, bc.describe())
		}
		var mineR []cellState // fold of the real stream with read reports included
		if twin {
			mineR = make([]cellState, m)
			for i := range mineR {
				mineR[i] = cellState{g.CoreEmpty, -1}
			}
		}
		checkRecorder := func(when string) bool {
			foldStream(mine, sm.all, m, lengths, false)
			if twin {
				foldStream(mineR, sm.all, m, lengths, true)
				for a := 0; a < m; a++ {
					if k, o := rec2.GetMemState(g.Address(a)); k != mineR[a].kind || o != mineR[a].owner {
						viol("lone-read-recorder-vs-stream", fmt.Sprintf("%s: a state recorder with read recording on, the only listener of an identical simulator, shows address %d as (state %d, warrior %d); the last report naming it (reads included) means (state %d, warrior %d)", when, a, k, o, mineR[a].kind, mineR[a].owner))
						return false
					}
				}
				c.Inc("lone_read_recorder_comparisons")
			}
			sm.all = sm.all[:0]
			for a := 0; a < m; a++ {
				k, o := rec.GetMemState(g.Address(a))
				if k2, o2 := recCopy.GetMemState(g.Address(a)); k2 != k || o2 != o {
					viol("recorder-copy-stale", fmt.Sprintf("%s: a by-value copy of the recorder (taken when it was made) shows address %d as (state %d, warrior %d), the recorder itself as (state %d, warrior %d)", when, a, k2, o2, k, o))
					return false
				}
				if k != mine[a].kind || o != mine[a].owner {
					viol("recorder-vs-stream", fmt.Sprintf("%s: recorder shows address %d as (state %d, warrior %d) but the last report naming it means (state %d, warrior %d)", when, a, k, o, mine[a].kind, mine[a].owner))
					return false
				}
				rc := refst[a]
				if !rc.accepts(k, o) {
					viol("recorder-vs-reference", fmt.Sprintf("%s: recorder shows address %d as (state %d, warrior %d); by the reference semantics the last operation on it was by warrior %d with kinds %v", when, a, k, o, rc.owner, rc.kinds))
					return false
				}
				c.Inc("recorder_cells_compared")
			}
			return true
		}
		if sm.bad != "" {
			viol("bad-report:spawn", "while spawning: "+sm.bad)
			return
		}
		if !checkRecorder("after spawning") {
			return
		}
		resetAt := -1
		if r.Chance(1, 5) {
			resetAt = r.Range(1, 20)
		}
		cycles := 0
		for !ref.Decided() {
			if cycles == resetAt {
				// Reset in the middle: recorder must show every address as empty, then respawn elsewhere
				ref.Reset()
				if p, msg := try(func() {
					s.Reset()
					if twin {
						s2.Reset()
					}
				}); p {
					viol("panic:reset:"+panicSite(msg), msg)
					return
				}
				for a := 0; a < m; a++ {
					if k, o := rec.GetMemState(g.Address(a)); k != g.CoreEmpty || o != -1 {
						viol("recorder-after-reset", fmt.Sprintf("after Reset the recorder shows address %d as (state %d, warrior %d)", a, k, o))
						return
					}
					refst[a] = refCell{owner: -1}
				}
				c.Inc("resets_observed")
				for i, w := range bc.Warriors {
					w.Off = r.Intn(2 * m)
					ref.Spawn(i, w.Off)
					if e := s.SpawnWarrior(i, g.Address(w.Off)); e != nil {
						viol("respawn", e.Error())
						return
					}
					if twin {
						s2.SpawnWarrior(i, g.Address(w.Off))
					}
					for j := range w.Code {
						refst[(w.Off+j)%m] = refCell{owner: i, kinds: map[g.CoreState]bool{g.CoreWritten: true}}
					}
				}
				prev = append([]mars.Insn(nil), ref.Core...)
				if !checkRecorder("after Reset and respawn") {
					return
				}
				resetAt = -1
				continue
			}
			traces, pres = traces[:0], pres[:0]
			sm.tasks = sm.tasks[:0]
			ref.RunCycle()
			if p, msg := try(func() {
				s.RunCycle()
				if twin {
					s2.RunCycle()
				}
			}); p {
				viol("panic:"+panicSite(msg), msg)
				return
			}
			cycles++
			c.Inc("cycles")
			if sm.bad != "" {
				viol("bad-report:"+strings.Fields(sm.bad)[0], fmt.Sprintf("cycle %d: %s", cycles, sm.bad))
				return
			}
			if len(sm.tasks) != len(traces) {
				viol("taskpop-count", fmt.Sprintf("cycle %d: %d TaskPop reports, reference executed %d tasks", cycles, len(sm.tasks), len(traces)))
				return
			}
			for k, t := range sm.tasks {
				tr := traces[k]
				c.Inc("tasks_closed")
				if t.w != tr.Warrior || t.pc != tr.PC {
					viol("taskpop-pc", fmt.Sprintf("cycle %d task %d: TaskPop says warrior %d at %d, reference executes warrior %d at %d", cycles, k, t.w, t.pc, tr.Warrior, tr.PC))
					return
				}
				// announced before it runs: the core at TaskPop is the reference core before the task
				for a := 0; a < m; a++ {
					got, ok := fromG(t.pre[a])
					if !ok || got != pres[k][a] {
						viol("taskpop-late", fmt.Sprintf("cycle %d task %d (warrior %d at %d): when the TaskPop report arrived, cell %d was already %v; before the task it is %s", cycles, k, t.w, t.pc, a, t.pre[a], insnStr(pres[k][a])))
						return
					}
				}
				// post state of this task
				post := func(a int) g.Instruction {
					if k+1 < len(sm.tasks) {
						return sm.tasks[k+1].pre[a]
					}
					return s.GetMem(g.Address(a))
				}
				may := map[int]map[g.CoreState]bool{}
				lastPhase := map[int]uint8{} // per cell: the last phase of the task that touched it
				lastKinds := map[int]map[g.CoreState]bool{}
				curPhase := uint8(0)
				add := func(a int, st g.CoreState) {
					if may[a] == nil {
						may[a] = map[g.CoreState]bool{}
					}
					may[a][st] = true
					if curPhase > lastPhase[a] || lastKinds[a] == nil {
						lastPhase[a] = curPhase
						lastKinds[a] = map[g.CoreState]bool{}
					}
					if curPhase == lastPhase[a] {
						lastKinds[a][st] = true
					}
				}
				sideEffectElsewhere := false
				for _, e := range tr.Info.Events {
					curPhase = e.Phase
					switch e.Kind {
					case mars.EvDec:
						add(e.Addr, g.CoreDecremented)
						if e.Addr != tr.Info.WB {
							sideEffectElsewhere = true
						}
					case mars.EvInc:
						add(e.Addr, g.CoreIncremented)
						if e.Addr != tr.Info.WB {
							sideEffectElsewhere = true
						}
					case mars.EvWrite:
						add(e.Addr, g.CoreWritten)
					}
				}
				for a := 0; a < m; a++ {
					if post(a) != t.pre[a] {
						c.Inc("changed_cells")
						if len(t.touched[a]) == 0 {
							viol("unreported-change", fmt.Sprintf("cycle %d task %d (warrior %d executing %s at %d): cell %d changed from %v to %v but no write/increment/decrement report of that task names it (reported: %v)",
								cycles, k, t.w, insnStr(pres[k][t.pc]), t.pc, a, t.pre[a], post(a), keys(t.touched)))
							return
						}
						c.Inc("changed_cells_matched_to_a_report")
					}
				}
				for a := range t.touched {
					if may[a] == nil {
						viol("report-of-untouchable-cell", fmt.Sprintf("cycle %d task %d (warrior %d executing %s at %d): a write/inc/dec report names cell %d, which the reference semantics cannot touch in this task (may touch %v)",
							cycles, k, t.w, insnStr(pres[k][t.pc]), t.pc, a, keysM(may)))
						return
					}
				}
				if (t.taskTerm > 0) != tr.Info.Died || t.taskTerm > 1 {
					viol("task-terminate", fmt.Sprintf("cycle %d task %d (warrior %d executing %s at %d): %d task-terminate reports, reference says died=%v", cycles, k, t.w, insnStr(pres[k][t.pc]), t.pc, t.taskTerm, tr.Info.Died))
					return
				}
				if (t.warTerm > 0) != tr.WDied || t.warTerm > 1 {
					viol("warrior-terminate", fmt.Sprintf("cycle %d task %d (warrior %d at %d): %d warrior-terminate reports, reference says warrior died=%v", cycles, k, t.w, t.pc, t.warTerm, tr.WDied))
					return
				}
				if tr.Info.Died {
					c.Inc("task_deaths")
				}
				if tr.WDied {
					c.Inc("warrior_deaths")
				}
				// reference fold: this task is now the last toucher of every cell it touched
				touchedRef := map[int]map[g.CoreState]bool{}
				addT := func(a int, st g.CoreState) {
					if touchedRef[a] == nil {
						touchedRef[a] = map[g.CoreState]bool{}
					}
					touchedRef[a][st] = true
				}
				// the recorder must show the kind of the LAST operation on a cell: the side effects of operand
				// evaluation (A before B) precede the opcode's own write / decrement / death; within the
				// execution phase the order of "write" and "task terminated" is not prescribed
				for a, ks := range lastKinds {
					for st := range ks {
						addT(a, st)
					}
				}
				if tr.Info.Died {
					if lastPhase[tr.PC] < 3 {
						touchedRef[tr.PC] = map[g.CoreState]bool{}
					}
					addT(tr.PC, g.CoreTerminated)
				} else if touchedRef[tr.PC] == nil {
					addT(tr.PC, g.CoreExecuted)
				}
				for a, ks := range touchedRef {
					nc := refCell{owner: tr.Warrior, kinds: ks}
					if a != tr.PC && post(a) == t.pre[a] {
						// a write that left the content unchanged (or a division by zero that wrote nothing): reporting it is optional
						old := refst[a]
						nc.alt = &old
					}
					refst[a] = nc
				}
				if sideEffectElsewhere {
					ins := pres[k][t.pc]
					c.Inc("tasks_with_side_effect_off_target")
					c.Nontrivial(fmt.Sprintf("%d|%d|%d", ins.Op, ins.AM, ins.BM))
				}
			}
			if ok, d := compareBattle(s, ws, ref, 0); !ok {
				viol("state", fmt.Sprintf("after cycle %d: %s", cycles, d))
				return
			}
			if !checkRecorder(fmt.Sprintf("after cycle %d", cycles)) {
				return
			}
		}
		if idx%997 == 0 {
			c.Sample(bc.describe())
		}
	})
}

func keys(m map[int][]g.ReportType) []int {
	var out []int
	for k := range m {
		out = append(out, k)
	}
	sort.Ints(out)
	return out
}

func keysM(m map[int]map[g.CoreState]bool) []int {
	var out []int
	for k := range m {
		out = append(out, k)
	}
	sort.Ints(out)
	return out
}

// resetMarathon reuses one simulator and one StateRecorder for several hundred
// spawn / run-a-little / Reset rounds: after every Reset the recorder must show
// every address as empty, however many resets came before.
func resetMarathon(c *Ctx, r *Rng) {
	bc := genBattle(r, 3, false)
	bc.C = 50
	s, err := g.NewReportingSimulator(bc.config())
	if err != nil {
		return
	}
	rec := g.NewStateRecorder(s)
	s.AddReporter(rec)
	for _, w := range bc.Warriors {
		s.AddWarrior(&g.WarriorData{Name: "w", Code: toGCode(w.Code), Start: w.Start})
	}
	rounds := r.Range(260, 600)
	for k := 1; k <= rounds; k++ {
		var pm string
		if p, msg := try(func() {
			for i := range bc.Warriors {
				s.SpawnWarrior(i, g.Address(r.Intn(2*bc.M)))
			}
			for n := r.Range(0, 4); n > 0; n-- {
				s.RunCycle()
			}
			s.Reset()
		}); p {
			pm = msg
		}
		if pm != "" {
			c.Violate("C15:marathon-panic:"+panicSite(pm), fmt.Sprintf("round %d: %s", k, pm), bc.describe())
			return
		}
		for a := 0; a < bc.M; a++ {
			if st, o := rec.GetMemState(g.Address(a)); st != g.CoreEmpty || o != -1 {
				c.Violate("C15:recorder-after-reset", fmt.Sprintf("after Reset number %d on the same simulator the recorder shows address %d as (state %d, warrior %d)", k, a, st, o), bc.describe())
				return
			}
		}
	}
	c.Inc("reset_marathons")
	c.Count("marathon_resets", int64(rounds))
}
