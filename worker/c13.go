package main

import (
	"fmt"
	"strings"
	"time"

	g "github.com/bobertlo/gmars"

	"verif/ref/mars"
)

func init() { props["C13"] = runC13 }

// one API call of a history
type apiCall struct {
	Kind string // add spawn runcycle run reset getwarrior getmem
	W    int    // warrior template (add) or warrior index (spawn, getwarrior)
	Off  int    // offset (spawn) or address (getmem)
	Huge uint64 // when non-zero: the offset / address as a full unsigned 64-bit number (overrides Off)
}

func (a apiCall) String() string {
	switch a.Kind {
	case "add":
		return fmt.Sprintf("AddWarrior(w%d)", a.W)
	case "spawn":
		if a.Huge != 0 {
			return fmt.Sprintf("SpawnWarrior(%d,%d)", a.W, a.Huge)
		}
		return fmt.Sprintf("SpawnWarrior(%d,%d)", a.W, a.Off)
	case "getwarrior":
		return fmt.Sprintf("GetWarrior(%d)", a.W)
	case "getmem":
		if a.Huge != 0 {
			return fmt.Sprintf("GetMem(%d)", a.Huge)
		}
		return fmt.Sprintf("GetMem(%d)", a.Off)
	case "runcycle":
		return "RunCycle()"
	case "run":
		return "Run()"
	default:
		return "Reset()"
	}
}

type apiHistory struct {
	M, P, C   int
	OneRecord bool       // every AddWarrior goes through one WarriorData variable that the caller refills (derived from M, P, C)
	Templates [][]string `json:"templates"`
	Calls     []string   `json:"calls"`
	templates []mars.WarriorCode
	calls     []apiCall
}

func (h *apiHistory) describe() *apiHistory {
	h.Templates = nil
	for _, t := range h.templates {
		h.Templates = append(h.Templates, append(coreStr(t.Code), fmt.Sprintf("start=%d", t.Start)))
	}
	h.Calls = nil
	for i, c := range h.calls {
		if len(h.calls) > 200 && i >= 60 && i < len(h.calls)-60 {
			if i == 60 {
				h.Calls = append(h.Calls, fmt.Sprintf("... %d calls (re-generate with the case index) ...", len(h.calls)-120))
			}
			continue
		}
		h.Calls = append(h.Calls, c.String())
	}
	return h
}

var (
	tImp   = mars.WarriorCode{Code: []mars.Insn{{Op: mars.MOV, Mod: mars.MI, AM: mars.DIR, BM: mars.DIR, A: 0, B: 1}}}
	tDat   = mars.WarriorCode{Code: []mars.Insn{{Op: mars.DAT, Mod: mars.MF, AM: mars.IMM, BM: mars.IMM}}}
	tLoop  = mars.WarriorCode{Code: []mars.Insn{{Op: mars.DAT, Mod: mars.MF, AM: mars.IMM, BM: mars.IMM}, {Op: mars.SPL, Mod: mars.MB, AM: mars.DIR, BM: mars.DIR, A: 0, B: 0}}, Start: 1}
	tEmpty = mars.WarriorCode{} // no code at all: spawning it only queues a task at the offset
)

// apiRunner drives a real simulator and the reference model with the same calls.
type apiRunner struct {
	rec     g.WarriorData
	c       *Ctx
	h       *apiHistory
	s       g.Simulator
	handles []g.Warrior
	ref     *mars.Battle
}

func newAPIRunner(c *Ctx, h *apiHistory) (*apiRunner, string) {
	cfg := g.SimulatorConfig{Mode: g.ICWS94, CoreSize: g.Address(h.M), Processes: g.Address(h.P), Cycles: g.Address(h.C),
		ReadLimit: g.Address(h.M), WriteLimit: g.Address(h.M)}
	var s g.Simulator
	var err error
	if p, msg := try(func() { s, err = g.NewSimulator(cfg) }); p || err != nil {
		return nil, fmt.Sprintf("NewSimulator: %v %s", err, msg)
	}
	h.OneRecord = (h.M+h.P+h.C)%2 == 1
	return &apiRunner{c: c, h: h, s: s, ref: mars.NewBattle(h.M, h.P, h.C, h.M, h.M)}, ""
}

// observe compares every observable with the model; returns a description of the first difference.
func (r *apiRunner) observe() string {
	s, ref := r.s, r.ref
	if s.WarriorCount() != len(ref.W) {
		return fmt.Sprintf("WarriorCount: gmars %d, model %d", s.WarriorCount(), len(ref.W))
	}
	if s.WarriorLivingCount() != ref.Living {
		return fmt.Sprintf("WarriorLivingCount: gmars %d, model %d", s.WarriorLivingCount(), ref.Living)
	}
	if s.CycleCount() != ref.Cycle {
		return fmt.Sprintf("CycleCount: gmars %d, model %d", s.CycleCount(), ref.Cycle)
	}
	if s.MaxCycles() != ref.C || int(s.CoreSize()) != ref.M {
		return fmt.Sprintf("MaxCycles/CoreSize: gmars %d/%d, model %d/%d", s.MaxCycles(), s.CoreSize(), ref.C, ref.M)
	}
	for i, w := range r.handles {
		if d := r.observeWarrior(i, w, "handle"); d != "" {
			return d
		}
	}
	for a := 0; a < ref.M; a++ {
		got, ok := fromG(s.GetMem(g.Address(a)))
		if !ok || got != ref.Core[a] {
			return fmt.Sprintf("core cell %d: gmars %v, model %s", a, s.GetMem(g.Address(a)), insnStr(ref.Core[a]))
		}
	}
	if inv := verifInvariants(s); len(inv) > 0 {
		return fmt.Sprintf("internal invariant: %v", inv)
	}
	return ""
}

func (r *apiRunner) observeWarrior(i int, w g.Warrior, via string) string {
	rw := r.ref.W[i]
	if w.Alive() != (rw.State == mars.Alive) {
		return fmt.Sprintf("warrior %d (%s) Alive: gmars %v, model %v", i, via, w.Alive(), rw.State == mars.Alive)
	}
	if q := w.Queue(); !queueEq(q, rw.Queue) {
		return fmt.Sprintf("warrior %d (%s) Queue: gmars %v, model %v", i, via, q, rw.Queue)
	}
	pc, err := w.NextPC()
	if len(rw.Queue) == 0 {
		if err == nil {
			return fmt.Sprintf("warrior %d (%s) NextPC: gmars returned %d without error, model has no tasks", i, via, pc)
		}
	} else if err != nil || int(pc) != rw.Queue[0] {
		return fmt.Sprintf("warrior %d (%s) NextPC: gmars (%d,%v), model %d", i, via, pc, err, rw.Queue[0])
	}
	if w.Length() != len(rw.Data.Code) {
		return fmt.Sprintf("warrior %d (%s) Length: gmars %d, model %d", i, via, w.Length(), len(rw.Data.Code))
	}
	// the remaining accessors are queries as well: asking must not change anything (the state
	// comparison after the next calls would show it)
	if l := w.LoadCode(); len(rw.Data.Code) > 0 && l == "" {
		return fmt.Sprintf("warrior %d (%s) LoadCode: empty listing for %d instructions", i, via, len(rw.Data.Code))
	}
	w.Name()
	w.Author()
	return ""
}

// apply performs one call on both sides; returns a discrepancy description or "".
func (r *apiRunner) apply(call apiCall) (d string) {
	s, ref, c := r.s, r.ref, r.c
	c.Inc("call_" + call.Kind)
	switch call.Kind {
	case "add":
		t := r.h.templates[call.W]
		data := &g.WarriorData{Name: fmt.Sprintf("w%d", call.W), Code: toGCode(t.Code), Start: t.Start}
		if r.h.OneRecord {
			// the caller refills one record for every add (as a loop reading warrior files would)
			r.rec = *data
			data = &r.rec
			c.Inc("adds_through_one_refilled_record")
		}
		w, err := s.AddWarrior(data)
		if err != nil || w == nil {
			return fmt.Sprintf("AddWarrior returned (%v,%v)", w, err)
		}
		r.handles = append(r.handles, w)
		ref.Add(t)
	case "spawn":
		off, addr := call.Off, g.Address(call.Off)
		if call.Huge != 0 {
			off, addr = int(call.Huge%uint64(ref.M)), g.Address(call.Huge)
		}
		merr := ref.Spawn(call.W, off)
		err := s.SpawnWarrior(call.W, addr)
		if merr != nil {
			c.Inc("calls_that_cannot_apply")
			c.Inc("spawn_refused_" + map[error]string{mars.ErrIndex: "index", mars.ErrRunning: "running"}[merr])
		}
		if (err != nil) != (merr != nil) {
			return fmt.Sprintf("SpawnWarrior(%d,%d): gmars error %v, model error %v", call.W, call.Off, err, merr)
		}
	case "runcycle":
		applied := ref.RunCycle()
		ret := s.RunCycle()
		if applied && ret != ref.Living {
			return fmt.Sprintf("RunCycle returned %d, model living count %d", ret, ref.Living)
		}
		if !applied {
			c.Inc("calls_that_cannot_apply")
			c.Inc("runcycle_on_decided_or_empty")
		}
	case "run":
		if ref.Decided() {
			c.Inc("calls_that_cannot_apply")
			c.Inc("run_on_decided_or_empty")
		}
		want := ref.Run()
		var got []bool
		c.Guarded(3*time.Second, "C13:run", r.h.describe(), func() { got = s.Run() })
		if len(ref.W) == 0 {
			if got != nil {
				return fmt.Sprintf("Run() with no warriors returned %v", got)
			}
		} else if got != nil && fmt.Sprint(got) != fmt.Sprint(want) {
			return fmt.Sprintf("Run() returned %v, model survivors %v", got, want)
		}
	case "reset":
		ref.Reset()
		s.Reset()
	case "getwarrior":
		w := s.GetWarrior(call.W)
		if call.W < 0 || call.W >= len(ref.W) {
			c.Inc("calls_that_cannot_apply")
			c.Inc("getwarrior_out_of_range")
			// a nil interface is the documented "no such warrior"
			if w != nil {
				return fmt.Sprintf("GetWarrior(%d) with %d warriors returned a non-nil warrior", call.W, len(ref.W))
			}
		} else {
			if w == nil {
				return fmt.Sprintf("GetWarrior(%d) returned nil for an existing warrior", call.W)
			}
			if d := r.observeWarrior(call.W, w, "GetWarrior"); d != "" {
				return d
			}
		}
	case "getmem":
		addr, want := g.Address(call.Off), call.Off%ref.M
		if call.Huge != 0 {
			addr, want = g.Address(call.Huge), int(call.Huge%uint64(ref.M))
		}
		got, ok := fromG(s.GetMem(addr))
		if !ok || got != ref.Core[want] {
			return fmt.Sprintf("GetMem(%d): gmars %v, model %s", addr, s.GetMem(addr), insnStr(ref.Core[want]))
		}
	}
	return ""
}

// runHistory plays h on a fresh real simulator and a fresh model.
func runHistory(c *Ctx, h *apiHistory) bool {
	r, d := newAPIRunner(c, h)
	if r == nil {
		c.Violate("C13:setup", d, h.describe())
		return false
	}
	cannot := false
	for k, call := range h.calls {
		before := c.res.Counters["calls_that_cannot_apply"]
		var d string
		if p, msg := try(func() { d = r.apply(call) }); p {
			c.Violate("C13:panic:"+call.Kind+":"+panicSite(msg), fmt.Sprintf("call %d %s: %s", k, call, msg), h.describe())
			return false
		}
		if d != "" {
			c.Violate("C13:return:"+call.Kind, fmt.Sprintf("call %d %s: %s", k, call, d), h.describe())
			return false
		}
		if p, msg := try(func() { d = r.observe() }); p {
			c.Violate("C13:panic-in-query:"+panicSite(msg), fmt.Sprintf("queries after call %d %s: %s", k, call, msg), h.describe())
			return false
		}
		if d != "" {
			c.Violate("C13:state-after:"+call.Kind+":"+strings.SplitN(d, ":", 2)[0], fmt.Sprintf("after call %d %s: %s", k, call, d), h.describe())
			return false
		}
		if c.res.Counters["calls_that_cannot_apply"] > before {
			cannot = true
		}
	}
	c.Count("calls", int64(len(h.calls)))
	if cannot {
		var ks []string
		for _, call := range h.calls {
			ks = append(ks, call.Kind)
		}
		c.Nontrivial(strings.Join(ks, ","))
		c.Inc("histories_with_a_call_that_cannot_apply")
	}
	return true
}

// symbols of the exhaustive alphabet; spawn indexes are relative: -1..count+1
func exhaustiveAlphabet(m int) []apiCall {
	var a []apiCall
	for t := 0; t < 4; t++ {
		a = append(a, apiCall{Kind: "add", W: t})
	}
	for i := -1; i <= 4; i++ {
		for _, off := range []int{0, m - 1, m, 2*m + 3} {
			a = append(a, apiCall{Kind: "spawn", W: i, Off: off})
		}
	}
	a = append(a, apiCall{Kind: "runcycle"}, apiCall{Kind: "run"}, apiCall{Kind: "reset"})
	for i := -1; i <= 4; i++ {
		a = append(a, apiCall{Kind: "getwarrior", W: i})
	}
	a = append(a, apiCall{Kind: "getmem", Off: 2*m + 3})
	return a
}

func runC13(c *Ctx) {
	depth := 3
	nRandom := int64(160000)
	if c.Thorough() {
		depth = 4
		nRandom = 8000000
	}
	if c.Only >= 0 {
		c.runC13Case(c.Only, depth, nRandom)
		return
	}
	// part 1: all sequences to `depth`, as a workload
	alpha := exhaustiveAlphabet(5)
	na := int64(len(alpha))
	total := int64(0)
	pow := int64(1)
	for d := 1; d <= depth; d++ {
		pow *= na
		total += pow
	}
	c.exhaustiveTotal = total
	c.Cases(total+nRandom, func(idx int64, r *Rng) { c.runC13Case(idx, depth, nRandom) })
}

func (c *Ctx) runC13Case(idx int64, depth int, nRandom int64) {
	alpha := exhaustiveAlphabet(5)
	na := int64(len(alpha))
	if c.exhaustiveTotal == 0 {
		pow := int64(1)
		for d := 1; d <= depth; d++ {
			pow *= na
			c.exhaustiveTotal += pow
		}
	}
	if idx < c.exhaustiveTotal {
		// decode idx -> (length, digits)
		rem := idx
		l := 1
		pow := na
		for rem >= pow {
			rem -= pow
			pow *= na
			l++
		}
		h := &apiHistory{M: 5, P: 2, C: 3, templates: []mars.WarriorCode{tImp, tDat, tLoop, tEmpty}}
		count := 0
		valid := true
		for k := 0; k < l; k++ {
			call := alpha[rem%na]
			rem /= na
			// indexes beyond count+1 add nothing new: skip such sequences
			if (call.Kind == "spawn" || call.Kind == "getwarrior") && call.W > count+1 {
				valid = false
				break
			}
			if call.Kind == "add" {
				count++
			}
			h.calls = append(h.calls, call)
		}
		if !valid {
			c.res.Evaluations--
			return
		}
		c.Inc("exhaustive_sequences")
		if runHistory(c, h) && idx%5003 == 5002 {
			c.Sample(h.describe())
		}
		return
	}
	// part 2: random histories biased toward Reset, respawn-of-dead and calls after decision
	r := NewRng(hashStr("C13"), uint64(c.Seed), uint64(idx))
	m := r.Range(5, 8)
	h := &apiHistory{M: m, P: r.Range(1, 3), C: []int{1, 2, 3, 5, 40}[r.Intn(5)]}
	h.templates = []mars.WarriorCode{tImp, tDat, tLoop, tEmpty}
	if r.Chance(1, 6) {
		// a process limit above the core size is a process limit like any other; a splitter fills it
		h.P = m + r.Range(1, 2*m)
		h.C = 3*h.P + r.Intn(10)
		spl := mars.Insn{Op: mars.SPL, Mod: mars.MB, AM: mars.DIR, BM: mars.DIR}
		h.templates = append(h.templates, mars.WarriorCode{Code: []mars.Insn{spl, {Op: mars.JMP, Mod: mars.MB, AM: mars.DIR, BM: mars.DIR, A: m - 1}}})
	}
	for k := 0; k < 2; k++ {
		l := r.Range(1, 4)
		if r.Chance(1, 8) {
			l = r.Range(m+1, 3*m+2) // longer than the core
		}
		t := mars.WarriorCode{Code: make([]mars.Insn, l), Start: r.Intn(l)}
		for j := range t.Code {
			t.Code[j] = livelyInsn(r, m)
		}
		h.templates = append(h.templates, t)
	}
	n := r.Range(3, 40)
	marathon := idx%1201 == 1200
	if marathon {
		n = r.Range(1500, 3000) // a long life of one simulator: hundreds of battles and Resets
	}
	count := 0
	offs := []int{0, m - 1, m, 2*m + 3, 1, 2}
	// a private model steers the generator (half of the histories): while the battle is live it is mostly
	// stepped, once it is decided the generator prefers Reset, re-spawning dead warriors and adding new ones
	steer := r.Chance(1, 2) || marathon
	gm := mars.NewBattle(h.M, h.P, h.C, h.M, h.M)
	for k := 0; k < n; k++ {
		var call apiCall
		x := r.Intn(20)
		if steer && count > 0 {
			dead := -1
			for i, w := range gm.W {
				if w.State != mars.Alive {
					dead = i
				}
			}
			switch {
			case !gm.Decided() && x < 12:
				x = 9 // runcycle
			case !gm.Decided() && x < 14:
				x = 13 // run
			case gm.Decided() && dead >= 0 && x < 10:
				call = apiCall{Kind: "spawn", W: dead, Off: offs[r.Intn(len(offs))]}
				x = -1
			case gm.Decided() && x < 13:
				x = 15 // reset
			}
		}
		switch {
		case x < 0:
		case x < 3 && count < 4:
			call = apiCall{Kind: "add", W: r.Intn(len(h.templates))}
		case x < 9:
			call = apiCall{Kind: "spawn", W: r.Range(-1, count+1), Off: offs[r.Intn(len(offs))]}
			if r.Chance(1, 6) {
				call.Huge = []uint64{^uint64(0), 1 << 63, 1<<63 + uint64(r.Intn(3*m)), ^uint64(0) - uint64(r.Intn(3*m)), 1 << 32}[r.Intn(5)]
			}
		case x < 13:
			call = apiCall{Kind: "runcycle"}
		case x < 15:
			call = apiCall{Kind: "run"}
		case x < 17:
			call = apiCall{Kind: "reset"}
		case x < 19:
			call = apiCall{Kind: "getwarrior", W: r.Range(-1, count+1)}
		default:
			call = apiCall{Kind: "getmem", Off: r.Intn(3*m + 4)}
			if r.Chance(1, 3) {
				call.Huge = []uint64{^uint64(0), 1 << 63, 1<<63 + uint64(r.Intn(3*m)), ^uint64(0) - uint64(r.Intn(3*m)), 1 << 32, 1<<63 - 1}[r.Intn(6)]
			}
		}
		switch call.Kind {
		case "add":
			count++
			gm.Add(h.templates[call.W])
		case "spawn":
			if call.Huge != 0 {
				gm.Spawn(call.W, int(call.Huge%uint64(h.M)))
			} else {
				gm.Spawn(call.W, call.Off)
			}
		case "runcycle":
			gm.RunCycle()
		case "run":
			gm.Run()
		case "reset":
			gm.Reset()
		}
		h.calls = append(h.calls, call)
	}
	if steer {
		c.Inc("steered_histories")
	}
	if marathon {
		c.Inc("marathon_histories")
	}
	c.Inc("random_histories")
	if !runHistory(c, h) {
		return
	}
	if idx%4999 == 0 {
		c.Sample(h.describe())
	}
	// relational part: prefix; Reset; respawn; suffix  versus  fresh; spawn; suffix
	if r.Chance(1, 2) {
		c.resetRelation(h, r)
	}
}

// resetRelation checks that a reset-and-respawned simulator cannot be told
// from a fresh one by any later call.
func (c *Ctx) resetRelation(h *apiHistory, r *Rng) {
	// warriors added by the history, in order
	var adds []apiCall
	for _, call := range h.calls {
		if call.Kind == "add" {
			adds = append(adds, call)
		}
	}
	if len(adds) == 0 {
		return
	}
	var spawns []apiCall
	for i := range adds {
		if r.Chance(3, 4) {
			spawns = append(spawns, apiCall{Kind: "spawn", W: i, Off: r.Intn(3 * h.M)})
		}
	}
	var suffix []apiCall
	for k := r.Range(1, 12); k > 0; k-- {
		switch r.Intn(6) {
		case 0:
			suffix = append(suffix, apiCall{Kind: "run"})
		case 1:
			suffix = append(suffix, apiCall{Kind: "spawn", W: r.Range(-1, len(adds)), Off: r.Intn(3 * h.M)})
		default:
			suffix = append(suffix, apiCall{Kind: "runcycle"})
		}
	}
	used := &apiHistory{M: h.M, P: h.P, C: h.C, templates: h.templates}
	used.calls = append(append(append(append([]apiCall{}, h.calls...), apiCall{Kind: "reset"}), spawns...), suffix...)
	fresh := &apiHistory{M: h.M, P: h.P, C: h.C, templates: h.templates}
	fresh.calls = append(append(append([]apiCall{}, adds...), spawns...), suffix...)

	ru, d1 := newAPIRunner(c, used)
	rf, d2 := newAPIRunner(c, fresh)
	if ru == nil || rf == nil {
		c.Violate("C13:setup", d1+d2, used.describe())
		return
	}
	play := func(rn *apiRunner, calls []apiCall) string {
		for k, call := range calls {
			var d string
			if p, msg := try(func() { d = rn.apply(call) }); p {
				return fmt.Sprintf("call %d %s: %s", k, call, msg)
			}
			_ = d // discrepancies with the model are reported by runHistory; here only the two real simulators are compared
		}
		return ""
	}
	if d := play(ru, append(append([]apiCall{}, h.calls...), apiCall{Kind: "reset"})); d != "" {
		return // already reported by runHistory
	}
	if d := play(rf, adds); d != "" {
		return
	}
	tail := append(append([]apiCall{}, spawns...), suffix...)
	for k, call := range tail {
		play(ru, []apiCall{call})
		play(rf, []apiCall{call})
		var d string
		if p, msg := try(func() { d = diffReal(ru, rf) }); p {
			c.Violate("C13:reset-relation:panic:"+panicSite(msg), msg, used.describe())
			return
		}
		if d != "" {
			c.Violate("C13:reset-relation:"+strings.SplitN(d, ":", 2)[0], fmt.Sprintf("after Reset+respawn, call %d of the common tail (%s) tells the simulators apart: %s", k, call, d), used.describe())
			return
		}
	}
	c.Inc("reset_respawn_pairs_compared")
}

// diffReal compares two real simulators observable by observable.
func diffReal(a, b *apiRunner) string {
	if a.s.CycleCount() != b.s.CycleCount() {
		return fmt.Sprintf("CycleCount: used %d, fresh %d", a.s.CycleCount(), b.s.CycleCount())
	}
	if a.s.WarriorLivingCount() != b.s.WarriorLivingCount() {
		return fmt.Sprintf("WarriorLivingCount: used %d, fresh %d", a.s.WarriorLivingCount(), b.s.WarriorLivingCount())
	}
	for i := range a.handles {
		wa, wb := a.handles[i], b.handles[i]
		if wa.Alive() != wb.Alive() {
			return fmt.Sprintf("Alive of warrior %d: used %v, fresh %v", i, wa.Alive(), wb.Alive())
		}
		if fmt.Sprint(wa.Queue()) != fmt.Sprint(wb.Queue()) {
			return fmt.Sprintf("Queue of warrior %d: used %v, fresh %v", i, wa.Queue(), wb.Queue())
		}
		pa, ea := wa.NextPC()
		pb, eb := wb.NextPC()
		if (ea != nil) != (eb != nil) || (ea == nil && pa != pb) {
			return fmt.Sprintf("NextPC of warrior %d: used (%d,%v), fresh (%d,%v)", i, pa, ea, pb, eb)
		}
	}
	for x := 0; x < a.ref.M; x++ {
		if a.s.GetMem(g.Address(x)) != b.s.GetMem(g.Address(x)) {
			return fmt.Sprintf("core cell %d: used %v, fresh %v", x, a.s.GetMem(g.Address(x)), b.s.GetMem(g.Address(x)))
		}
	}
	return ""
}
