//go:build !verif

package main

import g "github.com/bobertlo/gmars"

// Fallback when the hook file does not compile against the current tree (an internal
// refactoring renamed what it walks): the API-level monitors still decide the property,
// the internal-state invariants are reported as not evaluated.
const hookAvailable = false

func verifInvariants(s g.Simulator) []string { return nil }
