package main

import (
	"encoding/binary"
	"encoding/json"
	"flag"
	"fmt"
	"hash/fnv"
	"os"
	"regexp"
	"runtime/debug"
	"runtime/pprof"
	"sort"
	"strings"
	"verif/ref/asm"

	g "github.com/bobertlo/gmars"

	"verif/ref/mars"
)

// ---------------------------------------------------------------------------
// deterministic PRNG (splitmix64): a case is a pure function of
// (property, seed, case index), independent of sharding.

type Rng struct{ s uint64 }

func mix(z uint64) uint64 {
	z += 0x9e3779b97f4a7c15
	z = (z ^ (z >> 30)) * 0xbf58476d1ce4e5b9
	z = (z ^ (z >> 27)) * 0x94d049bb133111eb
	return z ^ (z >> 31)
}

func NewRng(parts ...uint64) *Rng {
	s := uint64(0x1234567)
	for _, p := range parts {
		s = mix(s ^ mix(p))
	}
	return &Rng{s}
}

func (r *Rng) U64() uint64 {
	r.s += 0x9e3779b97f4a7c15
	z := r.s
	z = (z ^ (z >> 30)) * 0xbf58476d1ce4e5b9
	z = (z ^ (z >> 27)) * 0x94d049bb133111eb
	return z ^ (z >> 31)
}

// Intn returns a value in [0,n). n must be > 0.
func (r *Rng) Intn(n int) int { return int(r.U64() % uint64(n)) }

// Range returns a value in [lo,hi].
func (r *Rng) Range(lo, hi int) int { return lo + r.Intn(hi-lo+1) }
func (r *Rng) Bool() bool           { return r.U64()&1 == 1 }

// Chance returns true with probability num/den.
func (r *Rng) Chance(num, den int) bool { return r.Intn(den) < num }
func (r *Rng) Pick(xs []int) int        { return xs[r.Intn(len(xs))] }
func (r *Rng) PickS(xs []string) string { return xs[r.Intn(len(xs))] }

func hashStr(s string) uint64 {
	h := fnv.New64a()
	h.Write([]byte(s))
	return h.Sum64()
}

// ---------------------------------------------------------------------------
// result of one worker shard

type Violation struct {
	Sig    string      `json:"sig"`    // stable signature: which clause failed, where
	Detail string      `json:"detail"` // human readable explanation
	Idx    int64       `json:"idx"`    // case index (re-generate with -only)
	Case   interface{} `json:"case"`   // the case itself, written out
}

type Result struct {
	Prop         string              `json:"prop"`
	Tier         string              `json:"tier"`
	Seed         int64               `json:"seed"`
	Shard        int                 `json:"shard"`
	Evaluations  int64               `json:"evaluations"`
	Counters     map[string]int64    `json:"counters"`
	Sets         map[string][]uint64 `json:"sets"` // named sets of hashed keys, unioned across shards
	Samples      []interface{}       `json:"samples"`
	Violations   []Violation         `json:"violations"`
	Known        []Violation         `json:"known"` // discrepancies that match a known-finding signature exactly
	Inconclusive []string            `json:"inconclusive"`
	Done         bool                `json:"done"`
}

type Ctx struct {
	Prop    string
	Tier    string
	Seed    int64
	Shard   int
	NShards int
	Only    int64 // >=0: run just this case index, verbosely
	Phase   string
	Verbose bool
	Race    bool // this binary was built with -race

	res             Result
	sets            map[string]map[uint64]struct{}
	caseLog         *os.File
	curIdx          int64
	maxViol         int
	outPath         string
	exhaustiveTotal int64
}

func (c *Ctx) Thorough() bool { return c.Tier == "thorough" }

func (c *Ctx) Count(name string, n int64) { c.res.Counters[name] += n }
func (c *Ctx) Inc(name string)            { c.res.Counters[name]++ }
func (c *Ctx) Max(name string, v int64) {
	if v > c.res.Counters[name] {
		c.res.Counters[name] = v
	}
}

// Nontrivial records a non-trivial case under its distinctness key.
func (c *Ctx) Nontrivial(key string) { c.Set("distinct_nontrivial", key) }

// Set adds key to a named set; the orchestrator reports the size of the union over all shards.
func (c *Ctx) Set(name, key string) {
	m := c.sets[name]
	if m == nil {
		m = map[uint64]struct{}{}
		c.sets[name] = m
	}
	m[hashStr(key)] = struct{}{}
}

func (c *Ctx) Sample(s interface{}) {
	if len(c.res.Samples) < 3 {
		c.res.Samples = append(c.res.Samples, s)
	}
}

func (c *Ctx) Violate(sig, detail string, cs interface{}) {
	c.res.Counters["violations_raw"]++
	if len(c.res.Violations) >= c.maxViol {
		return
	}
	// keep one witness per signature
	for _, v := range c.res.Violations {
		if v.Sig == sig {
			return
		}
	}
	c.res.Violations = append(c.res.Violations, Violation{Sig: sig, Detail: detail, Idx: c.curIdx, Case: cs})
	if c.Verbose {
		fmt.Printf("VIOLATION-DETAIL sig=%s idx=%d\n%s\n", sig, c.curIdx, detail)
	}
}

// KnownHit records a discrepancy whose input predicate and exact failure match
// a known-finding signature; the orchestrator decides (from the committed
// known_findings.jsonl) whether that signature is really listed.
func (c *Ctx) KnownHit(sig, detail string, cs interface{}) {
	c.res.Counters["known_raw"]++
	for _, v := range c.res.Known {
		if v.Sig == sig {
			return
		}
	}
	c.res.Known = append(c.res.Known, Violation{Sig: sig, Detail: detail, Idx: c.curIdx, Case: cs})
}

func (c *Ctx) Inconclusive(msg string) {
	if len(c.res.Inconclusive) < 20 {
		c.res.Inconclusive = append(c.res.Inconclusive, msg)
	}
}

// Cases runs fn for every case index of this shard in [0,n).  The index is
// written to the shard's case log before the case executes, so a fatal runtime
// error leaves the last logged index as the witness.
func (c *Ctx) Cases(n int64, fn func(idx int64, r *Rng)) {
	ph := hashStr(c.Prop)
	var buf [8]byte
	run := func(idx int64) {
		c.curIdx = idx
		if c.caseLog != nil {
			binary.LittleEndian.PutUint64(buf[:], uint64(idx))
			c.caseLog.WriteAt(buf[:], 0)
		}
		c.res.Evaluations++
		fn(idx, NewRng(ph, uint64(c.Seed), uint64(idx)))
	}
	if c.Only >= 0 {
		run(c.Only)
		return
	}
	for idx := int64(c.Shard); idx < n; idx += int64(c.NShards) {
		run(idx)
	}
}

// try runs f and converts a panic into (true, message with stack).
func try(f func()) (panicked bool, msg string) {
	defer func() {
		if r := recover(); r != nil {
			panicked = true
			st := string(debug.Stack())
			// keep the gmars frames only
			var keep []string
			lines := strings.Split(st, "\n")
			for i := 0; i+1 < len(lines); i++ {
				if strings.Contains(lines[i], "gmars.") && !strings.Contains(lines[i], "main.") {
					keep = append(keep, strings.TrimSpace(lines[i])+" "+strings.TrimSpace(lines[i+1]))
				}
			}
			if len(keep) > 6 {
				keep = keep[:6]
			}
			msg = fmt.Sprintf("panic: %v | %s", r, strings.Join(keep, " | "))
		}
	}()
	f()
	return
}

// panicSite extracts a short, line-number-free site from a try() message.
var panicSiteRe = regexp.MustCompile(`gmars\.((?:\(\*?\w+\)\.)?\w+)`)

func panicSite(msg string) string {
	m := panicSiteRe.FindStringSubmatch(msg)
	if m == nil {
		return "unknown"
	}
	return m[1]
}

// ---------------------------------------------------------------------------
// conversions between the reference data model and gmars' (by name, so a
// renumbering inside gmars cannot produce a false alarm)

var opToG = [mars.NumOps]g.OpCode{g.DAT, g.MOV, g.ADD, g.SUB, g.MUL, g.DIV, g.MOD, g.JMP, g.JMZ, g.JMN, g.DJN, g.CMP, g.SEQ, g.SNE, g.SLT, g.SPL, g.NOP}
var modToG = [mars.NumMods]g.OpMode{g.F, g.A, g.B, g.AB, g.BA, g.X, g.I}
var modeToG = [mars.NumModes]g.AddressMode{g.DIRECT, g.IMMEDIATE, g.A_INDIRECT, g.B_INDIRECT, g.A_DECREMENT, g.B_DECREMENT, g.A_INCREMENT, g.B_INCREMENT}

var opFromG, modFromG, modeFromG [256]int16

func init() {
	for i := range opFromG {
		opFromG[i], modFromG[i], modeFromG[i] = -1, -1, -1
	}
	n := 0
	for i, v := range opToG {
		if opFromG[uint8(v)] < 0 {
			n++
		}
		opFromG[uint8(v)] = int16(i)
	}
	for i, v := range modToG {
		if modFromG[uint8(v)] < 0 {
			n++
		}
		modFromG[uint8(v)] = int16(i)
	}
	for i, v := range modeToG {
		if modeFromG[uint8(v)] < 0 {
			n++
		}
		modeFromG[uint8(v)] = int16(i)
	}
	if n != int(mars.NumOps)+int(mars.NumMods)+int(mars.NumModes) {
		panic("gmars enum values are not distinct")
	}
}

func toG(i mars.Insn) g.Instruction {
	return g.Instruction{Op: opToG[i.Op], OpMode: modToG[i.Mod], AMode: modeToG[i.AM], BMode: modeToG[i.BM], A: g.Address(i.A), B: g.Address(i.B)}
}

// fromG converts a gmars instruction; ok is false when an enum is outside the data model.
func fromG(i g.Instruction) (mars.Insn, bool) {
	o, m, a, b := opFromG[uint8(i.Op)], modFromG[uint8(i.OpMode)], modeFromG[uint8(i.AMode)], modeFromG[uint8(i.BMode)]
	if o < 0 || m < 0 || a < 0 || b < 0 {
		return mars.Insn{}, false
	}
	return mars.Insn{Op: mars.Op(o), Mod: mars.Mod(m), AM: mars.Mode(a), BM: mars.Mode(b), A: int(i.A), B: int(i.B)}, true
}

func toGCode(code []mars.Insn) []g.Instruction {
	out := make([]g.Instruction, len(code))
	for i, c := range code {
		out[i] = toG(c)
	}
	return out
}

func insnStr(i mars.Insn) string {
	return fmt.Sprintf("%s.%s %c%d, %c%d", mars.OpNames[i.Op], mars.ModNames[i.Mod], mars.ModeChars[i.AM], i.A, mars.ModeChars[i.BM], i.B)
}

func coreStr(core []mars.Insn) []string {
	out := make([]string, len(core))
	for i, c := range core {
		out[i] = fmt.Sprintf("%d: %s", i, insnStr(c))
	}
	return out
}

// ---------------------------------------------------------------------------

type propFn func(c *Ctx)

var props = map[string]propFn{}

func main() {
	if os.Getenv("VERIF_COLDSTART") == "1" {
		coldStartChildMain()
	}
	asm.Legacy = os.Getenv("VERIF_LEGACY") == "1"
	var c Ctx
	var out, caseLog string
	flag.StringVar(&c.Prop, "prop", "", "property id")
	flag.StringVar(&c.Tier, "tier", "quick", "quick|thorough")
	flag.Int64Var(&c.Seed, "seed", 1, "seed")
	flag.IntVar(&c.Shard, "shard", 0, "shard index")
	flag.IntVar(&c.NShards, "nshards", 1, "number of shards")
	flag.Int64Var(&c.Only, "only", -1, "run only this case index")
	flag.BoolVar(&c.Verbose, "v", false, "verbose")
	flag.StringVar(&out, "out", "", "result file")
	flag.StringVar(&c.Phase, "phase", "main", "phase name")
	flag.StringVar(&caseLog, "caselog", "", "case log file")
	var cpuprof string
	flag.StringVar(&cpuprof, "cpuprofile", "", "write a CPU profile")
	flag.Parse()
	if cpuprof != "" {
		f, _ := os.Create(cpuprof)
		pprof.StartCPUProfile(f)
		defer pprof.StopCPUProfile()
	}
	c.Race = raceEnabled
	c.maxViol = 8
	c.sets = map[string]map[uint64]struct{}{}
	c.res = Result{Prop: c.Prop, Tier: c.Tier, Seed: c.Seed, Shard: c.Shard, Counters: map[string]int64{}}
	if c.Only >= 0 {
		c.Verbose = true
	}
	fn, ok := props[c.Prop]
	if !ok {
		fmt.Fprintf(os.Stderr, "unknown property %q\n", c.Prop)
		os.Exit(2)
	}
	if caseLog != "" {
		f, err := os.Create(caseLog)
		if err != nil {
			fmt.Fprintln(os.Stderr, err)
			os.Exit(2)
		}
		c.caseLog = f
	}
	c.outPath = out
	if hookAvailable {
		c.res.Counters["internal_invariant_hook_available"] = 1
	}
	fn(&c)
	c.finish()
}

// finish writes the shard result.
func (c *Ctx) finish() {
	out := c.outPath
	c.res.Done = true
	c.res.Sets = map[string][]uint64{}
	for name, m := range c.sets {
		l := make([]uint64, 0, len(m))
		for k := range m {
			l = append(l, k)
		}
		sort.Slice(l, func(i, j int) bool { return l[i] < l[j] })
		c.res.Sets[name] = l
	}
	data, err := json.Marshal(&c.res)
	if err != nil {
		fmt.Fprintln(os.Stderr, "marshal:", err)
		os.Exit(2)
	}
	if out == "" {
		os.Stdout.Write(data)
		fmt.Println()
	} else if err := os.WriteFile(out, data, 0o644); err != nil {
		fmt.Fprintln(os.Stderr, err)
		os.Exit(2)
	}
}
