package main

import (
	"bytes"
	"fmt"
	"os"
	"os/exec"
	"path/filepath"
	"strconv"
	"strings"
	"time"

	"verif/ref/asm"
	"verif/ref/mars"
)

func init() { props["C17"] = runC17 }

// preset table written from the README of gmars (not from config.go)
type presetRow struct {
	dialect                         asm.Dialect
	size, length, processes, cycles int
	distance                        int // the README table has no such column: the usual minimum distances of these hills
}

var readmePresets = map[string]presetRow{
	"nop94":   {asm.D94, 8000, 100, 8000, 80000, 100},
	"88":      {asm.D88, 8000, 100, 8000, 80000, 100},
	"icws":    {asm.D88, 8192, 300, 8000, 100000, 100},
	"noptiny": {asm.D94, 800, 20, 800, 8000, 20},
	"nop256":  {asm.D94, 256, 10, 60, 2560, 10},
	"nopnano": {asm.D94, 80, 5, 80, 800, 5},
}

// hand-made warriors with a known fate
func fateWarriors(d asm.Dialect) []string {
	w := []string{
		"mov 0, 1\n",   // imp: never dies alone
		"dat #0, #0\n", // dies at once
		"jmp 0\n",      // sits still forever
		"add #4, 3\nmov 2, @2\njmp -2\ndat #0, #0\n", // dwarf
		"spl 0\njmp -1\n",              // fills its process queue
		"x djn x, #50\ndat #0, #0\n",   // dies after ~50 cycles
		"x djn x, #3000\ndat #0, #0\n", // dies after ~3000 cycles
		"a djn a, #0\nb djn b, #4\nc jmp a, <a\ndat #0, #0\n",
		"mov bomb, <ptr\njmp -1\nbomb dat #0, #0\nptr dat #0, #-5\n", // backwards carpet
		"spl 2\njmp -1\nmov 0, 1\n",
		"a djn a, #8000\nb djn b, #8000\nc djn c, #8000\ndat #0, #0\n", // dies after about 24000 cycles
		"mov bomb, 900+MINDISTANCE\njmp -1, <-1\nbomb dat #0, #0\n",    // where the bomb lands depends on MINDISTANCE
		"mov bomb, 1000-MAXLENGTH\nbomb dat #0, #0\n",
	}
	if d == asm.D94 {
		w = append(w,
			"x djn.b x, #20000\ny djn.b y, #20000\ndat 0, 0\n", // dies after ~40000 cycles (between 10000 and 100000)
			"mov.i {0, >100\njmp -1\n",
			"nop >1, }2\nseq.i 1, 2\njmp -2\ndat 0, 0\n",
			"div.f #0, 1\nmov 0, 1\n")
	}
	return w
}

type cliCase struct {
	Args     []string `json:"args"`
	W1       string   `json:"warrior1"`
	W2       string   `json:"warrior2,omitempty"`
	Stdout   string   `json:"stdout"`
	Stderr   string   `json:"stderr"`
	Exit     int      `json:"exit"`
	Expected string   `json:"expected"`
}

func runC17(c *Ctx) {
	bin := os.Getenv("GMARS_BIN")
	work := os.Getenv("VERIF_WORK")
	if bin == "" || work == "" {
		c.Inconclusive("GMARS_BIN / VERIF_WORK not set: the CLI was not built")
		return
	}
	dir := filepath.Join(work, fmt.Sprintf("c17-%d-%d", c.Shard, os.Getpid()))
	os.MkdirAll(dir, 0o755)
	defer os.RemoveAll(dir)
	n := int64(2400)
	if c.Thorough() {
		n = 120000
	}
	c.Cases(n, func(idx int64, r *Rng) {
		// ---- flag vector
		var args []string
		var cfg asm.Config
		cycles := 80000
		flagset := ""
		if r.Chance(1, 3) {
			names := []string{"nop94", "88", "icws", "noptiny", "nop256", "nopnano"}
			name := names[r.Intn(len(names))]
			row := readmePresets[name]
			args = append(args, "-preset", name)
			// other flags must be ignored when a preset is given
			if r.Chance(1, 2) {
				// every one of these must be ignored
				ign := [][]string{{"-s", "100"}, {"-c", "3"}, {"-8"}, {"-p", "1"}, {"-l", "2"}, {"-s", "100", "-c", "3"}, {"-8", "-l", "3", "-p", "2"}}[r.Intn(7)]
				if r.Bool() {
					args = append(ign, args...) // before the -preset flag
				} else {
					args = append(args, ign...)
				}
				flagset += "+ignored" + ign[0]
			}
			cfg = asm.Config{Dialect: row.dialect, CoreSize: row.size, Length: row.length, Processes: row.processes, Distance: row.distance}
			cycles = row.cycles
			flagset = "preset:" + name + flagset
		} else {
			cfg = asm.Config{Dialect: asm.D94, CoreSize: 8000, Length: 100, Processes: 8000}
			if r.Chance(1, 3) {
				args = append(args, "-8")
				cfg.Dialect = asm.D88
				flagset += "-8"
			}
			if r.Chance(1, 2) {
				cfg.Length = []int{4, 10, 20, 100, 200}[r.Intn(5)]
				args = append(args, "-l", strconv.Itoa(cfg.Length))
				flagset += "-l"
			}
			if r.Chance(2, 3) {
				lo := 3*cfg.Length + 1
				cfg.CoreSize = lo + []int{0, 1, 7, 50, 500, 8000}[r.Intn(6)]
				if r.Chance(1, 12) {
					cfg.CoreSize = []int{65537, 100000, 250000}[r.Intn(3)] // cores above 2^16
				}
				args = append(args, "-s", strconv.Itoa(cfg.CoreSize))
				flagset += "-s"
			} else if 3*cfg.Length+1 > cfg.CoreSize {
				cfg.CoreSize = 3*cfg.Length + 1
				args = append(args, "-s", strconv.Itoa(cfg.CoreSize))
				flagset += "-s"
			}
			if r.Chance(1, 2) {
				cfg.Processes = []int{1, 2, 5, 64, 8000}[r.Intn(5)]
				args = append(args, "-p", strconv.Itoa(cfg.Processes))
				flagset += "-p"
			}
			if r.Chance(1, 2) {
				cycles = []int{1, 2, 10, 100, 5000, 80000}[r.Intn(6)]
				args = append(args, "-c", strconv.Itoa(cycles))
				flagset += "-c"
			}
			cfg.Distance = cfg.Length
		}
		rounds := 1
		if r.Chance(1, 2) {
			rounds = r.Range(2, 7)
			if cycles <= 100 && r.Chance(1, 6) {
				rounds = r.Range(255, 300) // more rounds than fit in a byte
			}
			if cycles <= 10 && cfg.CoreSize <= 1000 && r.Chance(1, 6) {
				rounds = 65536 + r.Intn(5000) // more rounds than fit in 16 bits (a few seconds on a small core)
				c.Inc("invocations_with_more_than_65535_rounds")
			}
			args = append(args, "-r", strconv.Itoa(rounds))
			flagset += "-r"
		}
		fixed := 0
		if r.Chance(2, 3) {
			fixed = r.Range(1, cfg.CoreSize-1)
			if r.Chance(1, 4) {
				fixed = []int{1, cfg.Length, 2 * cfg.Length, cfg.CoreSize - 1, cfg.CoreSize / 2}[r.Intn(5)]
				if fixed < 1 {
					fixed = 1
				}
			}
			if r.Chance(1, 10) {
				// a position is a core address: one at or beyond the core size names the cell it is congruent to
				// (the core size itself names cell 0 - and is not the "0 = random" default)
				fixed = cfg.CoreSize*r.Range(1, 2) + []int{0, 0, 1, cfg.Length, cfg.CoreSize / 2}[r.Intn(5)]
				c.Inc("fixed_positions_at_or_beyond_the_core_size")
			}
			args = append(args, "-F", strconv.Itoa(fixed))
			flagset += "-F"
		} else {
			flagset += "(random)"
		}
		// ---- warriors: by-construction programs with their meaning
		mk := func(k int) (string, *asm.Meaning) {
			for tries := 0; tries < 50; tries++ {
				var text string
				var p *asm.Prog
				if r.Chance(1, 2) {
					// fate warriors are plain text: take their meaning through an abstract re-parse is not possible,
					// so they are only used when the reference can assemble them: they are written in the
					// subset that the meaning function covers via GenProg-free construction below
					fw := fateWarriors(cfg.Dialect)
					text = fw[r.Intn(len(fw))]
					mn := meaningOfPlain(text, cfg)
					if mn != nil && len(mn.Code) <= cfg.Length {
						return text, mn
					}
					continue
				}
				o := asm.GenOpts{Cfg: cfg, MaxLines: 1 + r.Intn(min(cfg.Length, 8)), UseLabels: true, UseEqus: r.Bool(), UseFor: r.Chance(1, 5), MaxForExp: []int{5, 5, 12}[r.Intn(3)], UseConsts: r.Bool(), Meta: r.Chance(1, 3)}
				p = asm.GenProg(r, o)
				if r.Chance(1, 3) {
					// a true ;assert over a chain of EQUs (an author's sanity check of the constants)
					va, vb := 1+r.Intn(5), 2+r.Intn(3)
					p.Items = append([]asm.Item{&asm.Equ{Name: "zqa", E: asm.Lit{V: va}}, &asm.Equ{Name: "zqb", E: asm.Bin{Op: '*', L: asm.Ref{Name: "zqa"}, R: asm.Lit{V: vb}}}}, p.Items...)
					p.Asserts = append(p.Asserts, asm.Bin{Op: '-', L: asm.Ref{Name: "zqb"}, R: asm.Lit{V: va*vb - 1}})
				}
				mn, err := p.Meaning()
				if err != nil || len(mn.Code) == 0 || len(mn.Code) > cfg.Length {
					continue
				}
				if _, ust, _ := asm.Unroll(p); ust.Expansions > 12 {
					continue // more than 12 FOR expansions: known finding of C08, not C17's business
				}
				st := randStyle(r, progNames(p))
				if o.UseFor {
					st.FloatEqus = false
				}
				text = asm.Render(p, st)
				return text, mn
			}
			return "mov 0, 1\n", &asm.Meaning{Code: []mars.Insn{{Op: mars.MOV, Mod: mars.MI, AM: mars.DIR, BM: mars.DIR, A: 0, B: 1}}}
		}
		single := r.Chance(1, 8)
		t1, m1 := mk(1)
		pinned := idx < int64(len(pinnedCLI))
		if pinned {
			// pinned invocations: every preset with a slow-dying warrior against one that sits still
			pc := pinnedCLI[idx]
			rounds = 2
			if strings.HasPrefix(pc[0], "size:") {
				// a plain -s invocation on a big core
				size, _ := strconv.Atoi(strings.TrimPrefix(pc[0], "size:"))
				cfg = asm.Config{Dialect: asm.D94, CoreSize: size, Length: 100, Processes: 8000, Distance: 100}
				cycles = 200
				fixed, _ = strconv.Atoi(pc[3])
				args = []string{"-s", strconv.Itoa(size), "-c", "200", "-r", "2", "-F", strconv.Itoa(fixed)}
				flagset = "-s-c-r-F(pinned big core)"
			} else {
				row := readmePresets[pc[0]]
				cfg = asm.Config{Dialect: row.dialect, CoreSize: row.size, Length: row.length, Processes: row.processes, Distance: row.distance}
				cycles = row.cycles
				fixed = row.size / 2
				if pc[3] != "" {
					fixed, _ = strconv.Atoi(pc[3])
				}
				args = []string{"-preset", pc[0], "-r", "2", "-F", strconv.Itoa(fixed)}
				flagset = "preset:" + pc[0] + "-r-F(pinned)"
			}
			single = false
			t1 = pc[1]
			m1 = meaningOfPlain(t1, cfg)
		}
		if !pinned && r.Chance(1, 30) {
			// a file that assembles to no instruction at all is a warrior too (its one task executes whatever its cell holds)
			t1 = []string{";redcode\n;name nothing\n", "x equ 3\n;just a constant\nend\n", "\n\n", "for 0\nmov 0, 1\nrof\n"}[r.Intn(4)]
			m1 = &asm.Meaning{}
			c.Inc("warrior_files_without_instructions")
		}
		if !pinned && r.Chance(1, 30) {
			// a long file: more than 1 MiB of remarks in front of (or behind) the code
			pad := strings.Repeat("; "+strings.Repeat("remark ", 120)+"\n", 1300)
			if r.Bool() {
				t1 = pad + t1
			} else {
				t1 = t1 + "\n" + pad
			}
			c.Inc("warrior_files_above_1MiB")
		}
		f1 := filepath.Join(dir, fmt.Sprintf("w%d_1.red", idx))
		os.WriteFile(f1, []byte(t1), 0o644)
		defer os.Remove(f1)
		args = append(args, f1)
		var t2 string
		var m2 *asm.Meaning
		if !single {
			t2, m2 = mk(2)
			if pinned {
				t2 = pinnedCLI[idx][2]
				m2 = meaningOfPlain(t2, cfg)
			}
			if !pinned && r.Chance(1, 30) {
				t2 = []string{";redcode\n;name nothing\n", "x equ 3\n;just a constant\nend\n", "\n\n", "for 0\nmov 0, 1\nrof\n"}[r.Intn(4)]
				m2 = &asm.Meaning{}
				c.Inc("warrior_files_without_instructions")
			}
			if !pinned && r.Chance(1, 30) {
				pad := strings.Repeat("; "+strings.Repeat("remark ", 120)+"\n", 1300)
				if r.Bool() {
					t2 = pad + t2
				} else {
					t2 = t2 + "\n" + pad
				}
				c.Inc("warrior_files_above_1MiB")
			}
			f2 := filepath.Join(dir, fmt.Sprintf("w%d_2.red", idx))
			os.WriteFile(f2, []byte(t2), 0o644)
			defer os.Remove(f2)
			args = append(args, f2)
		}
		// ---- run the real CLI
		cmd := exec.Command(bin, args...)
		var so, se bytes.Buffer
		cmd.Stdout, cmd.Stderr = &so, &se
		done := make(chan error, 1)
		if err := cmd.Start(); err != nil {
			c.Inconclusive("cannot start the CLI: " + err.Error())
			return
		}
		go func() { done <- cmd.Wait() }()
		var werr error
		select {
		case werr = <-done:
		case <-time.After(120 * time.Second):
			cmd.Process.Kill()
			<-done
			c.Inconclusive(fmt.Sprintf("CLI invocation %v did not finish within 120 s wall clock (not a verdict)", args))
			return
		}
		exit := 0
		if werr != nil {
			if ee, ok := werr.(*exec.ExitError); ok {
				exit = ee.ExitCode()
			} else {
				exit = -1
			}
		}
		c.Inc("invocations")
		cs := &cliCase{Args: args, W1: t1, W2: t2, Stdout: so.String(), Stderr: se.String(), Exit: exit}
		// ---- reference tallies
		run := func(pos int) []bool {
			b := mars.NewBattle(cfg.CoreSize, cfg.Processes, cycles, cfg.CoreSize, cfg.CoreSize)
			b.Add(mars.WarriorCode{Code: m1.Code, Start: m1.Start})
			b.Spawn(0, 0)
			if !single {
				b.Add(mars.WarriorCode{Code: m2.Code, Start: m2.Start})
				b.Spawn(1, pos)
			}
			return b.Run()
		}
		lines := strings.Split(strings.TrimRight(so.String(), "\n"), "\n")
		wantLines := 2
		if single {
			wantLines = 1
		}
		if exit != 0 || se.Len() != 0 {
			c.Violate("C17:exit-or-stderr", fmt.Sprintf("exit status %d, stderr %q for well-formed warriors and valid options", exit, se.String()), cs)
			return
		}
		parse := func(l string) (int, int, bool) {
			f := strings.Fields(l)
			if len(f) != 2 {
				return 0, 0, false
			}
			a, e1 := strconv.Atoi(f[0])
			b, e2 := strconv.Atoi(f[1])
			return a, b, e1 == nil && e2 == nil
		}
		if len(lines) != wantLines {
			c.Violate("C17:output-shape", fmt.Sprintf("expected %d result lines, got %q", wantLines, so.String()), cs)
			return
		}
		w1w, w1t, ok1 := parse(lines[0])
		w2w, w2t, ok2 := 0, 0, true
		if !single {
			w2w, w2t, ok2 = parse(lines[1])
		}
		if !ok1 || !ok2 {
			c.Violate("C17:output-shape", fmt.Sprintf("result lines are not 'wins ties': %q", so.String()), cs)
			return
		}
		outcome := ""
		if fixed != 0 || single {
			alive := run(fixed)
			var e1w, e1t, e2w, e2t int
			if single {
				if alive[0] {
					e1w = rounds
					outcome = "survives"
				} else {
					outcome = "dies"
				}
			} else {
				switch {
				case alive[0] && alive[1]:
					e1t, e2t = rounds, rounds
					outcome = "tie"
				case alive[0]:
					e1w = rounds
					outcome = "1wins"
				case alive[1]:
					e2w = rounds
					outcome = "2wins"
				default:
					outcome = "none"
				}
			}
			cs.Expected = fmt.Sprintf("%d %d / %d %d", e1w, e1t, e2w, e2t)
			if w1w != e1w || w1t != e1t || w2w != e2w || w2t != e2t {
				c.Violate("C17:tally:"+tallyClass(flagset), fmt.Sprintf("flags %s: CLI printed %q, the reference MARS on the by-construction warriors gives %s (%d rounds, outcome %s)", flagset, so.String(), cs.Expected, rounds, outcome), cs)
				return
			}
			c.Inc("fixed_placement_tallies_compared")
		} else {
			// random placement: every round counted exactly once
			if w1w+w2w+w1t != rounds || w1t != w2t || w1w < 0 || w2w < 0 || w1t < 0 {
				c.Violate("C17:random-tally", fmt.Sprintf("random placement, %d rounds: CLI printed %q — wins1+wins2+ties must equal the rounds and both tie counts must agree", rounds, so.String()), cs)
				return
			}
			outcome = "random"
			c.Inc("random_placement_tallies_checked")
			// on small cores the reference enumerates EVERY placement the tool may draw
			// (2*length .. size-length-1): a tally can only contain outcomes that some placement produces,
			// and when all placements agree the tallies are determined
			lo, hi := 2*cfg.Length, cfg.CoreSize-cfg.Length-1
			if cfg.CoreSize <= 600 && int64(hi-lo+1)*int64(cycles) <= 3000000 && hi >= lo {
				poss := map[string]bool{}
				for pos := lo; pos <= hi; pos++ {
					a := run(pos)
					switch {
					case a[0] && a[1]:
						poss["tie"] = true
					case a[0]:
						poss["1wins"] = true
					case a[1]:
						poss["2wins"] = true
					default:
						poss["none"] = true
					}
				}
				bad := ""
				if w1w > 0 && !poss["1wins"] {
					bad = "a win for warrior 1"
				} else if w2w > 0 && !poss["2wins"] {
					bad = "a win for warrior 2"
				} else if w1t > 0 && !poss["tie"] {
					bad = "a tie"
				}
				if bad != "" {
					c.Violate("C17:random-impossible-outcome", fmt.Sprintf("random placement over %d rounds: CLI printed %q, i.e. %s, but no placement in %d..%d produces that outcome in the reference MARS (possible: %v)", rounds, so.String(), bad, lo, hi, poss), cs)
					return
				}
				c.Inc("random_placement_all_placements_enumerated")
				if len(poss) == 1 {
					c.Inc("random_placement_outcome_determined")
					for k := range poss {
						outcome = "random-determined-" + k
					}
				}
			}
		}
		c.Inc("outcome_" + outcome)
		if (outcome != "tie" && outcome != "random" && outcome != "survives") || flagset != "-F" {
			c.Nontrivial(flagset + "|" + outcome)
			c.Inc("nontrivial_invocations")
		}
		c.Set("flag_sets", flagset)
		if idx%97 == 5 {
			c.Sample(cs)
		}
	})
}

var slowDier = "a djn a, #8000\nb djn b, #8000\nc djn c, #8000\ndat #0, #0\n"

var pinnedCLI = [][4]string{
	{"icws", slowDier, "jmp 0\n", ""},
	{"88", slowDier, "jmp 0\n", ""},
	{"nop94", "jmp 0\n", slowDier, ""},
	{"noptiny", "x djn x, #700\ndat #0, #0\n", "jmp 0\n", ""},
	{"nop256", "x djn x, #200\ny djn y, #200\ndat #0, #0\n", "jmp 0\n", ""},
	// a B-indirect pointer chain whose sum (255+250) exceeds the core size: the bomb must land on cell 251
	{"nop256", "jmp 2\ndat #0, #250\nmov 2, @-1\njmp -1\ndat #0, #0\n", "jmp 0\n", "251"},
	{"nopnano", "x djn x, #70\ndat #0, #0\n", "mov 0, 1\n", ""},
	// cores above 2^16: a product above 2^32 decides where the warrior jumps (70003*73334 = 2 mod 100000 -> the jmp 0 cell)
	{"size:100000", "mul.x a, b\njmp @b\na dat #70003, #1\nb dat #1, #73334\ndat #0, #0\njmp 0\n", "jmp 0\n", "50000"},
	{"size:100000", "jmp 0\n", "mul.ab #70003, b\njmp @b\ndat #0, #0\nb dat #0, #73334\ndat #0, #0\njmp 0\n", "70000"},
	// MINDISTANCE as the warriors see it: the bomb lands on the opponent only with the hill's minimum distance
	{"icws", "mov bomb, MINDISTANCE\njmp -1\nbomb dat #0, #0\n", "jmp 0\n", "100"},
	{"noptiny", "mov bomb, MINDISTANCE\njmp -1\nbomb dat #0, #0\n", "jmp 0\n", "20"},
	{"88", "jmp 0\n", "mov bomb, MAXLENGTH\njmp -1\nbomb dat #0, #0\n", "7900"},
	// a dwarf on the 8192 core must not bomb itself (no read/write limits in the preset)
	{"icws", "spl 0\njmp -1\n", "add #4, 3\nmov 2, @2\njmp -2\ndat #0, #0\n", "3740"},
}

// meaningOfPlain computes the meaning of a simple text (labels, opcodes, modes,
// literal/label operands with + and -) by parsing it into an abstract program.
func meaningOfPlain(text string, cfg asm.Config) *asm.Meaning {
	p := &asm.Prog{Cfg: cfg}
	for _, line := range strings.Split(text, "\n") {
		line = strings.TrimSpace(line)
		if line == "" {
			continue
		}
		f := strings.Fields(strings.ReplaceAll(line, ",", " , "))
		ins := &asm.Instr{}
		k := 0
		for k < len(f) {
			base := strings.SplitN(f[k], ".", 2)
			if _, ok := asm.OpByName(base[0]); ok {
				ins.Op = strings.ToLower(base[0])
				if len(base) == 2 {
					ins.Mod = strings.ToLower(base[1])
				}
				k++
				break
			}
			ins.Labels = append(ins.Labels, f[k])
			k++
		}
		if ins.Op == "" {
			return nil
		}
		rest := strings.Join(f[k:], " ")
		ops := strings.Split(rest, ",")
		parseOp := func(s string) (asm.Operand, bool) {
			s = strings.TrimSpace(s)
			var o asm.Operand
			if s == "" {
				return o, false
			}
			if strings.ContainsRune("#$@*<>{}", rune(s[0])) {
				o.Mode = s[0]
				s = strings.TrimSpace(s[1:])
			}
			neg := false
			if strings.HasPrefix(s, "-") {
				neg = true
				s = s[1:]
			}
			var e asm.Expr
			if v, err := strconv.Atoi(s); err == nil {
				e = asm.Lit{V: v}
			} else {
				e = asm.Ref{Name: s}
			}
			if neg {
				e = asm.Un{Signs: "-", X: e}
			}
			o.E = e
			return o, true
		}
		a, ok := parseOp(ops[0])
		if !ok {
			return nil
		}
		ins.A = a
		if len(ops) > 1 {
			b, ok := parseOp(ops[1])
			if !ok {
				return nil
			}
			ins.B = &b
		}
		p.Items = append(p.Items, ins)
	}
	mn, err := p.Meaning()
	if err != nil {
		return nil
	}
	return mn
}

func tallyClass(flagset string) string {
	if strings.HasPrefix(flagset, "preset:") {
		name := strings.TrimPrefix(flagset, "preset:")
		for i, ch := range name {
			if ch == '-' || ch == '+' || ch == '(' {
				return "preset:" + name[:i]
			}
		}
		return "preset:" + name
	}
	return "flags"
}
