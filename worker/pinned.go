package main

import (
	"fmt"
	"strconv"
	"strings"
	"time"

	g "github.com/bobertlo/gmars"

	"verif/ref/asm"
	"verif/ref/mars"
)

// Pinned witnesses of repaired defects (known_findings.txt, "fixed:" lines).
// They run on every invocation of the owning check (shard 0), so that a
// regression is reported as a fresh violation.

type pinnedAsm struct {
	prop    string
	name    string
	loader  bool   // ParseLoadFile instead of CompileWarrior
	mode    string // "94" "88"
	m       int
	length  int
	text    string
	want    []string // expected instructions "OP.MOD mA, mB" (fields mod M); nil with wantErr
	start   int
	wantErr bool
}

var pinnedAsms = []pinnedAsm{
	{prop: "C07", name: "sign-run-parity", mode: "94", m: 8000, length: 100, text: "dat #5*--1, #5---3\n", want: []string{"DAT.F #5, #2"}},
	{prop: "C07", name: "sign-through-equ", mode: "94", m: 8000, length: 100, text: "x equ -1\ndat #5*-x, #2- -x\n", want: []string{"DAT.F #5, #1"}},
	{prop: "C07", name: "sign-through-label", mode: "94", m: 8000, length: 100, text: "a dat 0\ndat 0\ndat #3- -a, #-(-a)\n", want: []string{"DAT.F #0, $0", "DAT.F #0, $0", "DAT.F #1, #7998"}},
	{prop: "C06", name: "start-equals-length", mode: "94", m: 8000, length: 100, text: "org 2\ndat 0\ndat 0\n", wantErr: true},
	{prop: "C06", name: "end-start-equals-length", mode: "94", m: 8000, length: 100, text: "dat 0\ndat 0\nend 2\n", wantErr: true},
	{prop: "C06", name: "longer-than-max-length", mode: "94", m: 8000, length: 1, text: "dat 0\ndat 0\n", wantErr: true},
	{prop: "C06", name: "88-accepts-94-mode-a", mode: "88", m: 8000, length: 100, text: "mov *1, }2\n", wantErr: true},
	{prop: "C06", name: "88-accepts-94-mode-b", mode: "88", m: 8000, length: 100, text: "jmp {1\n", wantErr: true},
	{prop: "C03", name: "comment-on-unterminated-last-line", mode: "94", m: 8000, length: 100, text: "mov 0, 1 ; no newline", want: []string{"MOV.I $0, $1"}},
	{prop: "C03", name: "comment-line-unterminated", mode: "94", m: 8000, length: 100, text: "mov 0, 1\n; no newline", want: []string{"MOV.I $0, $1"}},
	{prop: "C09", name: "loader-unterminated-last-line-94", loader: true, mode: "94", m: 8000, length: 100, text: "       ORG      1\n       MOV.I  $     0, $     1\n       DAT.F  #     2, #     3", want: []string{"MOV.I $0, $1", "DAT.F #2, #3"}, start: 1},
	{prop: "C09", name: "loader-unterminated-end-88", loader: true, mode: "88", m: 8000, length: 100, text: "       MOV $ 0, $ 1\n       DAT # 2, # 3\n       END 1", want: []string{"MOV.I $0, $1", "DAT.F #2, #3"}, start: 1},
	{prop: "C10", name: "loader-88-org-negative", loader: true, mode: "88", m: 8000, length: 100, text: "ORG -1\nMOV $ 0, $ 1\n", wantErr: true},
	{prop: "C10", name: "loader-88-bare-org", loader: true, mode: "88", m: 8000, length: 100, text: "MOV $ 0, $ 1\nORG\nMOV $ 0, $ 1\n", wantErr: true},
	{prop: "C10", name: "loader-short-strategy", loader: true, mode: "94", m: 8000, length: 100, text: "MOV.I $ 0, $ 1\n;strategy", want: []string{"MOV.I $0, $1"}},
	{prop: "C08", name: "rof-unterminated", mode: "94", m: 8000, length: 100, text: "i for 2\ndat #i, #0\nrof", want: []string{"DAT.F #1, #0", "DAT.F #2, #0"}},
	{prop: "C08", name: "colon-before-counter", mode: "94", m: 8000, length: 100, text: "lbl: i for 2\ndat #i, #lbl\nrof\n", want: []string{"DAT.F #1, #0", "DAT.F #2, #7999"}},
	{prop: "C08", name: "colon-after-label-in-body", mode: "94", m: 8000, length: 100, text: "Gap: j for 1\nzz9: div Gap+0, zz9\nrof\njmp zz9\n", want: []string{"DIV.F $0, $0", "JMP.B $7999, $0"}},
	{prop: "C08", name: "junk-in-dead-block", mode: "94", m: 8000, length: 100, text: "dat 1\nfor 0\n#$@ !! ~\nrof\ndat 2\n", want: []string{"DAT.F #0, $1", "DAT.F #0, $2"}},
	{prop: "C07", name: "assert-after-own-line-label", mode: "94", m: 8000, length: 100, text: "lbl\n;assert 0\ndat 1\n", wantErr: true},
	{prop: "C07", name: "assert-after-own-line-label-with-for", mode: "94", m: 8000, length: 100, text: "lbl:\n;assert 1-1\ni for 2\ndat i\nrof\n", wantErr: true},
	{prop: "C07", name: "constant-in-for-count", mode: "94", m: 8000, length: 100, text: "n equ CORESIZE/4000\ni for n\ndat #i, #MAXLENGTH\nrof\nj for MAXLENGTH/50\ndat #j, #0\nrof\n", want: []string{"DAT.F #1, #100", "DAT.F #2, #100", "DAT.F #1, #0", "DAT.F #2, #0"}},
	{prop: "C08", name: "equ-trailing-comment-in-count", mode: "94", m: 8000, length: 100, text: "x equ 2 ; two\ni for x\ndat #i, #0\nrof\n", want: []string{"DAT.F #1, #0", "DAT.F #2, #0"}},
	{prop: "C05", name: "assert-with-cyclic-equ", mode: "94", m: 8000, length: 100, text: "a equ b\nb equ a\n;assert a\nmov a, b\n", wantErr: true},
	{prop: "C05", name: "empty-equ-value", mode: "94", m: 8000, length: 100, text: "x equ ; nothing\ndat x\n", wantErr: true},
}

func parseInsnText(s string, m int) (mars.Insn, error) {
	f := strings.Fields(strings.ReplaceAll(s, ",", " "))
	if len(f) != 3 {
		return mars.Insn{}, fmt.Errorf("bad pinned instruction %q", s)
	}
	om := strings.Split(f[0], ".")
	op, ok1 := asm.OpByName(om[0])
	md, ok2 := asm.ModByName(om[1])
	am, ok3 := asm.ModeByChar(f[1][0])
	bm, ok4 := asm.ModeByChar(f[2][0])
	a, e1 := strconv.Atoi(f[1][1:])
	b, e2 := strconv.Atoi(f[2][1:])
	if !ok1 || !ok2 || !ok3 || !ok4 || e1 != nil || e2 != nil {
		return mars.Insn{}, fmt.Errorf("bad pinned instruction %q", s)
	}
	return mars.Insn{Op: op, Mod: md, AM: am, BM: bm, A: a % m, B: b % m}, nil
}

// runPinned runs the pinned witnesses of prop; called by the owning worker.
func runPinned(c *Ctx, prop string) {
	if c.Shard != 0 || c.Only >= 0 {
		return
	}
	for _, p := range pinnedAsms {
		if p.prop != prop {
			continue
		}
		mode := g.ICWS94
		if p.mode == "88" {
			mode = g.ICWS88
		}
		cfg := g.SimulatorConfig{Mode: mode, CoreSize: g.Address(p.m), Processes: 8000, Cycles: 1000, ReadLimit: g.Address(p.m), WriteLimit: g.Address(p.m), Length: g.Address(p.length), Distance: g.Address(p.length)}
		cs := map[string]interface{}{"pinned": p.name, "config": cfg, "text": p.text}
		var wd g.WarriorData
		var err error
		var pm string
		c.curIdx = -1
		c.Guarded(6*time.Second, prop+":pinned:"+p.name, cs, func() {
			if p.loader {
				wd, err, pm = loadFile(p.text, cfg)
			} else {
				wd, err, pm = compile(p.text, cfg)
			}
		})
		c.Inc("pinned_witnesses_run")
		sig := prop + ":pinned:" + p.name
		switch {
		case pm != "":
			c.Violate(sig, "pinned witness of a repaired defect panics again: "+pm, cs)
		case p.wantErr && err == nil:
			c.Violate(sig, fmt.Sprintf("pinned witness of a repaired defect is accepted again (code %v start %d)", wd.Code, wd.Start), cs)
		case !p.wantErr && err != nil:
			c.Violate(sig, fmt.Sprintf("pinned witness of a repaired defect is rejected again: %v", err), cs)
		case !p.wantErr:
			var want []mars.Insn
			for _, w := range p.want {
				ins, e := parseInsnText(w, p.m)
				if e != nil {
					panic(e)
				}
				want = append(want, ins)
			}
			if d := diffCode(wd.Code, want); d != "" || wd.Start != p.start {
				c.Violate(sig, fmt.Sprintf("pinned witness of a repaired defect assembles wrongly again: %s (start %d, expected %d)", d, wd.Start, p.start), cs)
			}
		}
	}
}
