package main

import (
	"fmt"
	"math/big"
	"strings"

	g "github.com/bobertlo/gmars"

	"verif/ref/asm"
)

func init() { props["C07"] = runC07 }

type exprGen struct {
	r        *Rng
	atoms    []asm.Expr // identifiers usable as atoms
	maxRun   int
	signRuns map[int]int
}

func (e *exprGen) signs() string {
	n := 1
	switch e.r.Intn(6) {
	case 0, 1:
		n = 2
	case 2:
		n = 3
	case 3:
		n = e.r.Range(1, 5)
	}
	var b strings.Builder
	for i := 0; i < n; i++ {
		if e.r.Chance(3, 4) {
			b.WriteByte('-')
		} else {
			b.WriteByte('+')
		}
	}
	if n > e.maxRun {
		e.maxRun = n
	}
	e.signRuns[n]++
	return b.String()
}

func (e *exprGen) atom() asm.Expr {
	if len(e.atoms) > 0 && e.r.Chance(1, 3) {
		return e.atoms[e.r.Intn(len(e.atoms))]
	}
	v := 0
	switch e.r.Intn(5) {
	case 0:
		v = 0
	case 1:
		v = e.r.Intn(3)
	case 2:
		v = e.r.Intn(10000)
	default:
		v = e.r.Intn(30)
	}
	z := 0
	if e.r.Chance(1, 8) {
		z = e.r.Range(1, 3)
	}
	return asm.Lit{V: v, Zeros: z}
}

func (e *exprGen) gen(depth int) asm.Expr {
	if depth <= 0 || e.r.Chance(1, 4) {
		a := e.atom()
		if e.r.Chance(1, 4) {
			return asm.Un{Signs: e.signs(), X: a}
		}
		return a
	}
	switch e.r.Intn(9) {
	case 0:
		return asm.Par{X: e.gen(depth - 1)}
	case 1:
		return asm.Un{Signs: e.signs(), X: e.gen(depth - 1)}
	case 2:
		return asm.Un{Signs: e.signs(), X: asm.Par{X: e.gen(depth - 1)}}
	default:
		op := "+-*/%"[e.r.Intn(5)]
		if e.r.Chance(1, 2) {
			op = "+-*"[e.r.Intn(3)]
		}
		return asm.Bin{Op: op, L: e.gen(depth - 1), R: e.gen(depth - 1)}
	}
}

func shapeOf(x asm.Expr) string {
	switch v := x.(type) {
	case asm.Lit:
		if v.V == 0 {
			return "0"
		}
		return "n"
	case asm.Ref:
		return "r"
	case asm.Par:
		return "(" + shapeOf(v.X) + ")"
	case asm.Un:
		return fmt.Sprintf("u%d%s", len(v.Signs), shapeOf(v.X))
	case asm.Bin:
		return "[" + shapeOf(v.L) + string(v.Op) + shapeOf(v.R) + "]"
	}
	return "?"
}

// negDivSeen evaluates the AST (EQUs atomic) only to learn whether a / or % saw a negative operand.
func negDivSeen(x asm.Expr, val func(name string) *big.Int) (v *big.Int, seen bool, ok bool) {
	switch t := x.(type) {
	case asm.Lit:
		return big.NewInt(int64(t.V)), false, true
	case asm.Ref:
		b := val(t.Name)
		return b, false, b != nil
	case asm.Par:
		return negDivSeen(t.X, val)
	case asm.Un:
		v, s, ok := negDivSeen(t.X, val)
		if !ok {
			return nil, s, false
		}
		if strings.Count(t.Signs, "-")%2 == 1 {
			v = new(big.Int).Neg(v)
		}
		return v, s, true
	case asm.Bin:
		l, s1, ok1 := negDivSeen(t.L, val)
		r, s2, ok2 := negDivSeen(t.R, val)
		if !ok1 || !ok2 {
			return nil, s1 || s2, false
		}
		seen := s1 || s2
		switch t.Op {
		case '+':
			return new(big.Int).Add(l, r), seen, true
		case '-':
			return new(big.Int).Sub(l, r), seen, true
		case '*':
			return new(big.Int).Mul(l, r), seen, true
		default:
			if r.Sign() == 0 {
				return nil, seen, false
			}
			if l.Sign() < 0 || r.Sign() < 0 {
				seen = true
			}
			if t.Op == '/' {
				return new(big.Int).Quo(l, r), seen, true
			}
			return new(big.Int).Rem(l, r), seen, true
		}
	}
	return nil, false, false
}

func runC07(c *Ctx) {
	defer withDisturb(c)()
	runPinned(c, "C07")
	n := int64(240000)
	if c.Thorough() {
		n = 16000000
	}
	c.Cases(n, func(idx int64, r *Rng) {
		big34 := r.Chance(1, 2)
		cfg := asm.Config{Dialect: asm.D94, CoreSize: 1 << 34, Length: 100, Processes: []int{1, 64, 8000}[r.Intn(3)], Distance: []int{0, 100, 4000}[r.Intn(3)]}
		if !big34 {
			cfg.CoreSize = []int{3, 7, 10, 80, 8000, 8192, 55440}[r.Intn(7)]
			if cfg.Length > cfg.CoreSize {
				cfg.Length = cfg.CoreSize
			}
			cfg.Distance = min(cfg.Distance, cfg.CoreSize-cfg.Length)
		}
		gc := gcfg(cfg, []g.SimulatorMode{g.ICWS94, g.NOP94}[r.Intn(2)])
		if idx%16 == 5 {
			// the same ;assert line in different programs: its verdict depends on the program's own symbols, every time
			k := r.Range(2, 9)
			q := r.Range(1, 50)
			name := []string{"zst", "STEP", "x", "gap_2"}[r.Intn(4)]
			line := fmt.Sprintf(";assert %s%%%d\n", name, k)
			if r.Bool() {
				line = fmt.Sprintf(";assert (%s-%d)*(%s+1)\n", name, k*q, name)
			}
			holds := fmt.Sprintf("%s equ %d\n%sdat 0\n", name, k*q+1, line)
			fails := fmt.Sprintf("%s equ %d\n%sdat 0\n", name, k*q, line)
			seq := []string{holds, fails, holds}
			if r.Bool() {
				seq = []string{fails, holds, fails, holds}
			}
			for i, text := range seq {
				wd, err, pm := compile(text, gc)
				cs := map[string]interface{}{"config": gc, "sequence": seq, "position": i}
				if pm != "" {
					c.Violate("C07:panic:"+panicSite(pm), pm, cs)
					return
				}
				if text == holds && (err != nil || len(wd.Code) != 1) {
					c.Violate("C07:rejected:assert", fmt.Sprintf("program %d of a sequence sharing one ;assert line: the condition is non-zero for this program's symbols but it was rejected: %v", i, err), cs)
					return
				}
				if text == fails && err == nil {
					c.Violate("C07:assert-accepted", fmt.Sprintf("program %d of a sequence sharing one ;assert line: the condition is zero for this program's symbols but it was accepted", i), cs)
					return
				}
			}
			c.Inc("assert_line_shared_by_programs_with_different_symbols")
			return
		}
		eg := &exprGen{r: r, signRuns: map[int]int{}}
		// EQUs: pure-number definitions, some of them negative or compound (textual substitution matters)
		nequ := r.Intn(4)
		p := &asm.Prog{Cfg: cfg}
		equSigned := false
		var equNames []string
		lowerConsts := r.Chance(1, 5)
		for k := 0; k < nequ; k++ {
			name := []string{"x", "yy", "NEG", "k2"}[k]
			if lowerConsts {
				// names are case-sensitive: the lower-case spellings of the predefined constants are ordinary user names
				name = []string{"coresize", "maxlength", "mindistance", "maxprocesses"}[k]
			}
			sub := &exprGen{r: r, signRuns: eg.signRuns}
			for _, nm := range equNames {
				sub.atoms = append(sub.atoms, asm.Ref{Name: nm})
			}
			var def asm.Expr
			switch r.Intn(4) {
			case 0:
				def = asm.Un{Signs: "-", X: asm.Lit{V: r.Range(1, 9)}}
				equSigned = true
			case 1:
				def = asm.Bin{Op: "+-"[r.Intn(2)], L: asm.Lit{V: r.Intn(9)}, R: asm.Lit{V: r.Range(1, 9)}}
			default:
				def = sub.gen(2)
			}
			p.Items = append(p.Items, &asm.Equ{Name: name, E: def})
			equNames = append(equNames, name)
			if r.Chance(1, 10) {
				// a second name in front of the same EQU
				also := []string{"also_a", "also_b", "T2", "q_"}[k]
				p.Items = append(p.Items, &asm.Equ{Name: also, E: def, JoinPrev: true})
				equNames = append(equNames, also)
				c.Inc("equ_lines_defining_two_names")
			}
		}
		pureAtoms := []asm.Expr{}
		for _, nm := range equNames {
			pureAtoms = append(pureAtoms, asm.Ref{Name: nm})
		}
		probe := r.Intn(10)
		useLabels := probe < 6 && r.Chance(1, 2)
		eg.atoms = append(eg.atoms, pureAtoms...)
		if probe != 7 || !asm.Legacy { // every position sees the predefined constants, FOR counts included
			for _, cn := range []string{"CORESIZE", "MAXLENGTH", "MAXPROCESSES", "MINDISTANCE"} {
				if r.Chance(1, 3) {
					eg.atoms = append(eg.atoms, asm.Ref{Name: cn})
				}
			}
		}
		if useLabels {
			eg.atoms = append(eg.atoms, asm.Ref{Name: "la"}, asm.Ref{Name: "lb"})
		}
		depth := r.Range(1, 6)
		e1 := eg.gen(depth)
		e2 := eg.gen(r.Range(0, 3))
		if probe < 6 && r.Chance(1, 25) {
			// values at the very ends of the 32-bit range, spelled in several ways (both ends are in range)
			lit := func(v int) asm.Expr { return asm.Lit{V: v} }
			neg := func(x asm.Expr) asm.Expr { return asm.Un{Signs: "-", X: x} }
			ends := []asm.Expr{
				neg(lit(2147483648)), lit(2147483647), asm.Bin{Op: '-', L: neg(lit(2147483647)), R: lit(1)}, asm.Bin{Op: '+', L: lit(2147483646), R: lit(1)},
				neg(asm.Par{X: lit(2147483648)}), asm.Bin{Op: '-', L: asm.Bin{Op: '*', L: lit(65536), R: lit(32768)}, R: lit(1)}, asm.Bin{Op: '*', L: neg(lit(65536)), R: lit(32768)},
				asm.Bin{Op: '-', L: lit(0), R: lit(2147483648)}, asm.Bin{Op: '/', L: neg(lit(2147483648)), R: lit(1)}, asm.Bin{Op: '%', L: neg(lit(2147483648)), R: lit(7)},
			}
			e1 = ends[r.Intn(len(ends))]
			if r.Bool() {
				e2 = ends[r.Intn(len(ends))]
			}
			c.Inc("operands_at_the_ends_of_the_32_bit_range")
		}
		dat := func(labels ...string) *asm.Instr {
			return &asm.Instr{Labels: labels, Op: "dat", A: asm.Operand{Mode: '#', E: asm.Lit{V: 0}}, B: &asm.Operand{Mode: '#', E: asm.Lit{V: 0}}}
		}
		kind := ""
		scatter := false
		switch {
		case probe < 6: // operand fields
			kind = "operand"
			before := r.Intn(4)
			for k := 0; k < before; k++ {
				if k == 0 && useLabels {
					p.Items = append(p.Items, dat("la"))
				} else {
					p.Items = append(p.Items, dat())
				}
			}
			if before == 0 && useLabels {
				p.Items = append(p.Items, dat("la"))
			}
			p.Items = append(p.Items, &asm.Instr{Op: "dat", A: asm.Operand{Mode: '#', E: e1}, B: &asm.Operand{Mode: '#', E: e2}})
			if useLabels {
				p.Items = append(p.Items, dat(), dat("lb"))
			}
		case probe == 6: // ORG argument
			kind = "org"
			for k := 0; k < 40; k++ {
				p.Items = append(p.Items, dat())
			}
			if r.Bool() {
				p.Items = append(p.Items, &asm.Org{E: e1})
			} else {
				p.EndArg = e1 // the END argument is the other way to give the entry point
				kind = "end"
			}
		case probe == 7: // FOR count
			kind = "for"
			if r.Bool() {
				// an earlier block in front of the EQU definitions: the count of the second block uses EQUs written after it
				first := &asm.For{Counter: "h", Count: asm.Lit{V: r.Range(0, 2)}, Body: []asm.Item{&asm.Instr{Op: "dat", A: asm.Operand{Mode: '#', E: asm.Ref{Name: "h"}}, B: &asm.Operand{Mode: '#', E: asm.Lit{V: 7}}}}}
				p.Items = append([]asm.Item{first}, p.Items...)
			}
			p.Items = append(p.Items, &asm.For{Counter: "i", Count: e1, Body: []asm.Item{&asm.Instr{Op: "dat", A: asm.Operand{Mode: '#', E: asm.Ref{Name: "i"}}, B: &asm.Operand{Mode: '#', E: asm.Lit{V: 0}}}}})
			p.Items = append(p.Items, dat())
		default: // ;assert
			kind = "assert"
			if !useLabels && r.Chance(1, 3) {
				// the assert line sits inside a FOR/ROF body: it counts when the block is expanded (1 or 2 times) and
				// vanishes with the body when the count is 0; the counter's name may be part of other names (y/yy, k/k2,
				// N/NEG, e/coresize, S/CORESIZE): those are other symbols
				p.Items = append(p.Items, &asm.For{Counter: []string{"zzc", "y", "k", "e", "N", "S", "x2"}[r.Intn(7)], Count: asm.Lit{V: r.Intn(3)}, Asserts: []asm.Expr{e1}, Body: []asm.Item{dat()}})
				c.Inc("asserts_inside_for_bodies")
			} else {
				p.Asserts = []asm.Expr{e1}
				if r.Chance(1, 3) && !asm.Legacy {
					// the assert line may follow a label that stands on a line of its own
					p.Items = append(p.Items, dat("own"))
					scatter = true
				}
			}
			p.Items = append(p.Items, dat())
		}
		st := &asm.Style{R: r, Spacing: r.Intn(3), Case: r.Intn(3), WithEnd: r.Bool()}
		if scatter {
			st.OwnLinePct, st.ScatterDirectives = 100, true
		}
		text := asm.Render(p, st)
		mn, merr := p.Meaning()
		if kind == "for" {
			// a huge count means a huge program: that blow-up is the documented semantics, so it is not generated
			equ := map[string][]asm.Tok{}
			for _, it := range p.Items {
				if q, ok := it.(*asm.Equ); ok {
					equ[q.Name] = asm.Tokens(q.E)
				}
			}
			env := asm.Env{EQU: equ, Atom: func(name string) (*big.Int, bool) {
				switch name {
				case "CORESIZE":
					return big.NewInt(int64(cfg.CoreSize)), true
				case "MAXLENGTH":
					return big.NewInt(int64(cfg.Length)), true
				case "MAXPROCESSES":
					return big.NewInt(int64(cfg.Processes)), true
				case "MINDISTANCE":
					return big.NewInt(int64(cfg.Distance)), true
				}
				return nil, false
			}}
			if v, e := env.Eval(asm.Tokens(e1)); e == nil && (!v.IsInt64() || v.Int64() > 200) {
				c.Inc("for_count_too_large_skipped")
				c.res.Evaluations--
				return
			}
		}
		wd, err, pm := compile(text, gc)
		c.Inc("expressions_" + kind)
		cs := func() interface{} {
			return mkAsmCase(gc, text, mn, fmt.Sprintf("probe=%s expected-error=%v", kind, merr))
		}
		if pm != "" {
			c.Violate("C07:panic:"+panicSite(pm), pm, cs())
			return
		}
		// classify the expectation
		verdictChecked := false
		switch {
		case merr == nil:
			if kind == "for" && len(mn.Code) > 31 {
				c.Inc("for_count_too_large_skipped")
				break
			}
			if err != nil {
				c.Violate("C07:rejected:"+kind, fmt.Sprintf("expression in %s position has value(s) in range but the program was rejected: %v", kind, err), cs())
				return
			}
			if dd := diffCode(wd.Code, mn.Code); dd != "" {
				c.Violate("C07:value:"+kind, dd, cs())
				return
			}
			if wd.Start != mn.Start {
				c.Violate("C07:value:"+kind, fmt.Sprintf("entry point: gmars %d, expected %d", wd.Start, mn.Start), cs())
				return
			}
			verdictChecked = true
		case strings.Contains(merr.Error(), "division by zero"):
			c.Inc("division_by_zero_cases")
			if err == nil {
				c.Violate("C07:div0-accepted:"+kind, "an expression that divides by zero was accepted", cs())
				return
			}
			verdictChecked = true
		case merr == asm.ErrAssert:
			c.Inc("assert_zero_cases")
			if err == nil {
				c.Violate("C07:assert-accepted", "the ;assert condition evaluates to zero but the program was accepted", cs())
				return
			}
			verdictChecked = true
		default:
			// outside the determinate domain (value beyond 32 bits, ORG outside the code, negative FOR count): only "no panic" is required
			c.Inc("outside_domain_" + kind)
		}
		if kind == "assert" && merr == nil {
			c.Inc("assert_nonzero_cases")
		}
		if !verdictChecked {
			return
		}
		c.Inc("verdicts_checked")
		for k, v := range eg.signRuns {
			c.Count(fmt.Sprintf("sign_runs_len%d", k), int64(v))
		}
		_, negSeen, _ := negDivSeen(e1, func(name string) *big.Int {
			for _, it := range p.Items {
				if q, ok := it.(*asm.Equ); ok && q.Name == name {
					v, _, ok := negDivSeen(q.E, func(string) *big.Int { return big.NewInt(1) })
					if ok {
						return v
					}
				}
			}
			return big.NewInt(1)
		})
		if negSeen {
			c.Inc("negative_div_or_mod_operand")
		}
		usesEquSign := equSigned && strings.Contains(shapeOf(e1), "r")
		if eg.maxRun >= 2 || negSeen || usesEquSign {
			c.Nontrivial(kind + "|" + shapeOf(e1))
			c.Inc("nontrivial_expressions")
		}
		if idx%1499 == 0 {
			c.Sample(cs())
		}
	})
}
