package main

import (
	"fmt"
	"sort"
	"strings"

	g "github.com/bobertlo/gmars"

	"verif/ref/mars"
)

func init() { props["C02"] = runC02 }

func runC02(c *Ctx) {
	n := int64(200000)
	if c.Thorough() {
		n = 16000000
	}
	c.Cases(n, func(idx int64, r *Rng) {
		if idx%401 == 400 {
			runLongBattle(c, idx, r)
			return
		}
		if idx%20011 == 5 || (c.Thorough() && idx == 7) {
			runDeepQueue(c, idx, r)
			return
		}
		bc := genBattle(r, 4, r.Chance(1, 3))
		if idx == 0 {
			// pinned witness of a repaired defect (known_findings.txt): entry point wraps past the last address
			bc = &BattleCase{M: 10, P: 2, C: 30, R: 10, W: 10, Warriors: []*BWarrior{{Code: []mars.Insn{tDat.Code[0], tImp.Code[0]}, Start: 1, Off: 9}, {Code: []mars.Insn{tImp.Code[0]}, Off: 4}}}
		}
		if idx%97 == 96 {
			// cycle limits are unsigned 64-bit numbers: with a limit beyond 2^32 / 2^63 the battle can only end by death;
			// the reference gets a limit it never reaches and battles that do not end within 400 cycles are cut there
			bc.HugeC = []uint64{1 << 32, 1<<32 + 1, 1<<63 - 1, 1 << 63, 1<<63 + 3, ^uint64(0), ^uint64(0) - 1, 1<<63 + uint64(r.Intn(50))}[r.Intn(8)]
			bc.C = 1 << 62
		}
		nw := len(bc.Warriors)
		rec := &popRecorder{}
		var s g.ReportingSimulator
		var ws []g.Warrior
		var err error
		if p, msg := try(func() { s, ws, err = bc.newReal(0, rec) }); p || err != nil {
			c.Violate("C02:setup:"+panicSite(msg), fmt.Sprintf("building the battle failed: %v %s", err, msg), bc.describe())
			return
		}
		ref := bc.newRef(0)
		var cyc []mars.TaskTrace
		ref.Trace = func(t mars.TaskTrace) { cyc = append(cyc, t) }
		events := map[string]bool{}
		if nw >= 3 {
			events[fmt.Sprintf("%dwarriors", nw)] = true
		}
		if ok, d := compareBattle(s, ws, ref, 0); !ok {
			c.Violate("C02:initial", "state after spawning: "+d, bc.describe())
			return
		}
		cycles := 0
		for !ref.Decided() {
			if bc.HugeC != 0 && cycles >= 400 {
				c.Inc("huge_cycle_limit_battles_cut_at_400")
				return
			}
			if apiDecided(s) {
				c.Violate("C02:decided-early", fmt.Sprintf("after %d cycles gmars looks decided (count=%d living=%d cycle=%d/%d) but the reference battle is not", cycles, s.WarriorCount(), s.WarriorLivingCount(), s.CycleCount(), s.MaxCycles()), bc.describe())
				return
			}
			cyc = cyc[:0]
			rec.pops = rec.pops[:0]
			ref.RunCycle()
			var ret int
			if p, msg := try(func() { ret = s.RunCycle() }); p {
				c.Violate("C02:panic:"+panicSite(msg), msg, bc.describe())
				return
			}
			cycles++
			c.Inc("cycles")
			c.Count("tasks", int64(len(cyc)))
			// executed (warrior, pc) sequence
			if len(rec.pops) != len(cyc) {
				c.Violate("C02:trace-length", fmt.Sprintf("cycle %d: gmars executed %v, reference executed %d tasks", cycles, rec.pops, len(cyc)), bc.describe())
				return
			}
			for k, t := range cyc {
				if rec.pops[k] != [2]int{t.Warrior, t.PC} {
					c.Violate("C02:trace", fmt.Sprintf("cycle %d task %d: gmars executed warrior %d at %d, reference warrior %d at %d", cycles, k, rec.pops[k][0], rec.pops[k][1], t.Warrior, t.PC), bc.describe())
					return
				}
				if t.Dropped > 0 {
					events["push-dropped"] = true
					c.Inc("pushes_dropped_at_limit")
				}
				if t.WDied {
					c.Inc("warrior_deaths")
					if nw > 1 {
						events["death-multi"] = true
					} else {
						events["death-single"] = true
					}
				}
			}
			if ret != ref.Living {
				c.Violate("C02:runcycle-return", fmt.Sprintf("cycle %d: RunCycle returned %d, reference living count %d", cycles, ret, ref.Living), bc.describe())
				return
			}
			if ok, d := compareBattle(s, ws, ref, 0); !ok {
				c.Violate("C02:state:"+strings.SplitN(d, ":", 2)[0], fmt.Sprintf("after cycle %d: %s", cycles, d), bc.describe())
				return
			}
			if inv := verifInvariants(s); len(inv) > 0 {
				c.Violate("C02:invariant", fmt.Sprintf("after cycle %d: %v", cycles, inv), bc.describe())
				return
			}
			if ref.Decided() && nw > 1 && ref.Living == 1 && ref.Cycle < ref.C {
				// decided by death: were later warriors left unexecuted?
				last := cyc[len(cyc)-1]
				for j := last.Warrior + 1; j < nw; j++ {
					if ref.W[j].State == mars.Alive {
						events["midcycle-stop"] = true
						c.Inc("midcycle_decisions_with_unexecuted_warriors")
					}
				}
			}
		}
		if !apiDecided(s) {
			c.Violate("C02:not-decided", fmt.Sprintf("reference battle is decided after %d cycles but gmars does not look decided (count=%d living=%d cycle=%d/%d)", cycles, s.WarriorCount(), s.WarriorLivingCount(), s.CycleCount(), s.MaxCycles()), bc.describe())
			return
		}
		// the battle has stopped: one more RunCycle must not execute anything
		rec.pops = rec.pops[:0]
		if p, msg := try(func() { s.RunCycle() }); p {
			c.Violate("C02:panic-after-end:"+panicSite(msg), msg, bc.describe())
			return
		}
		if len(rec.pops) > 0 {
			c.Violate("C02:stepped-after-end", fmt.Sprintf("the battle was over after %d cycles (cycle %d/%d, %d living) but another RunCycle executed %v", cycles, ref.Cycle, ref.C, ref.Living, rec.pops), bc.describe())
			return
		}
		if ok, d := compareBattle(s, ws, ref, 0); !ok {
			c.Violate("C02:changed-after-end", "RunCycle on the finished battle changed the state: "+d, bc.describe())
			return
		}
		// ... and neither must Run() on the finished battle
		rec.pops = rec.pops[:0]
		var survAgain []bool
		if p, msg := try(func() { survAgain = s.Run() }); p {
			c.Violate("C02:panic-after-end:"+panicSite(msg), msg, bc.describe())
			return
		}
		if len(rec.pops) > 0 {
			c.Violate("C02:run-after-end-executes", fmt.Sprintf("the battle was over after %d cycles but a Run() call on it executed %v", cycles, rec.pops), bc.describe())
			return
		}
		if ok, d := compareBattle(s, ws, ref, 0); !ok {
			c.Violate("C02:changed-after-end", "Run() on the finished battle changed the state: "+d, bc.describe())
			return
		}
		if survAgain != nil && fmt.Sprint(survAgain) != fmt.Sprint(ref.AliveVec()) {
			c.Violate("C02:run-survivors", fmt.Sprintf("Run() on the finished battle returned %v, survivors are %v", survAgain, ref.AliveVec()), bc.describe())
			return
		}
		if ref.Cycle >= ref.C && ref.Living > 1 {
			events["cycle-limit-multi-alive"] = true
			c.Inc("cycle_limit_with_several_alive")
		}
		if ref.Cycle >= ref.C {
			c.Inc("ended_by_cycle_limit")
		} else {
			c.Inc("ended_by_death")
		}

		// relational part: one Run() call on a second simulator
		var s2 g.ReportingSimulator
		var ws2 []g.Warrior
		if p, msg := try(func() { s2, ws2, err = bc.newReal(0) }); p || err != nil {
			c.Violate("C02:setup2", fmt.Sprintf("%v %s", err, msg), bc.describe())
			return
		}
		var surv []bool
		if p, msg := try(func() { surv = s2.Run() }); p {
			c.Violate("C02:run-panic:"+panicSite(msg), msg, bc.describe())
			return
		}
		want := ref.AliveVec()
		if fmt.Sprint(surv) != fmt.Sprint(want) {
			c.Violate("C02:run-survivors", fmt.Sprintf("Run() returned %v, reference survivors %v", surv, want), bc.describe())
			return
		}
		if ok, d := compareBattle(s2, ws2, ref, 0); !ok {
			c.Violate("C02:run-vs-step:"+strings.SplitN(d, ":", 2)[0], "state after Run() differs from the cycle-by-cycle state: "+d, bc.describe())
			return
		}
		// a second Run() on the same simulator finds the battle finished
		if p, msg := try(func() { surv = s2.Run() }); p {
			c.Violate("C02:run-panic:"+panicSite(msg), msg, bc.describe())
			return
		}
		if ok, d := compareBattle(s2, ws2, ref, 0); !ok || (surv != nil && fmt.Sprint(surv) != fmt.Sprint(want)) {
			c.Violate("C02:second-run-changes", fmt.Sprintf("a second Run() changed the finished battle (returned %v): %s", surv, d), bc.describe())
			return
		}
		c.Inc("run_vs_step_compared")
		if bc.HugeC != 0 {
			c.Inc("huge_cycle_limit_battles_ended_by_death")
			c.Nontrivial(fmt.Sprintf("%d|huge-cycle-limit|%d", nw, bc.HugeC>>62))
		}
		c.Inc(fmt.Sprintf("battles_%dw", nw))
		if len(events) > 0 {
			var ev []string
			for e := range events {
				ev = append(ev, e)
			}
			sort.Strings(ev)
			c.Nontrivial(fmt.Sprintf("%d|%s|M%d|P%d", nw, strings.Join(ev, ","), bc.M/8, bc.P))
			c.Inc("nontrivial_battles")
		}
		if idx%499 == 0 {
			c.Sample(bc.describe())
		}
	})
}

// runDeepQueue: a splitter on a tiny core under a process limit of thousands (in the thorough tier once: millions):
// the queue grows to the limit, stays there, and is a first-in-first-out queue all the way (compared with the
// reference at checkpoints and at the end; the internal invariants are evaluated as well).
func runDeepQueue(c *Ctx, idx int64, r *Rng) {
	m := r.Range(6, 16)
	p := []int{8193, 9000, 12000, 16385, 20000, 40000, 70000}[r.Intn(7)]
	if c.Thorough() && idx == 7 {
		p = 1<<21 + r.Range(1, 5000)
	}
	spl := mars.Insn{Op: mars.SPL, Mod: mars.MB, AM: mars.DIR, BM: mars.DIR}
	jmp := mars.Insn{Op: mars.JMP, Mod: mars.MB, AM: mars.DIR, BM: mars.DIR, A: m - 1}
	bc := &BattleCase{M: m, P: p, C: 2*p + r.Range(100, 3000), R: m, W: m, Warriors: []*BWarrior{{Code: []mars.Insn{spl, jmp}, Off: r.Intn(m)}}}
	if r.Bool() {
		bc.Warriors = append(bc.Warriors, &BWarrior{Code: []mars.Insn{{Op: mars.JMP, Mod: mars.MB, AM: mars.DIR, BM: mars.DIR}}, Off: (bc.Warriors[0].Off + 3) % m})
	}
	var s g.ReportingSimulator
	var ws []g.Warrior
	var err error
	if pn, msg := try(func() { s, ws, err = bc.newReal(0) }); pn || err != nil {
		c.Violate("C02:setup:"+panicSite(msg), fmt.Sprintf("building the battle failed: %v %s", err, msg), bc.describe())
		return
	}
	ref := bc.newRef(0)
	step := max(1024, bc.C/12)
	for cyc := 0; !ref.Decided(); cyc++ {
		ref.RunCycle()
		if pn, msg := try(func() { s.RunCycle() }); pn {
			c.Violate("C02:panic:"+panicSite(msg), fmt.Sprintf("cycle %d: %s", cyc, msg), bc.describe())
			return
		}
		if cyc%step == step-1 || ref.Decided() || (cyc > p-3 && cyc < p+3) {
			if ok, d := compareBattle(s, ws, ref, 0); !ok {
				c.Violate("C02:long:state:"+strings.SplitN(d, ":", 2)[0], fmt.Sprintf("deep queue, after cycle %d: %s", cyc+1, firstWords(d, 40)), bc.describe())
				return
			}
			if inv := verifInvariants(s); len(inv) > 0 {
				c.Violate("C02:invariant", fmt.Sprintf("deep queue, after cycle %d: %v", cyc+1, inv), bc.describe())
				return
			}
		}
	}
	c.Inc("deep_queue_battles")
	c.Max("max_tasks_of_one_warrior", int64(len(ws[0].Queue())))
}

func firstWords(s string, n int) string {
	f := strings.Fields(s)
	if len(f) > n {
		f = append(f[:n], "...")
	}
	return strings.Join(f, " ")
}
