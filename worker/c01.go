package main

import (
	"fmt"

	g "github.com/bobertlo/gmars"

	"verif/ref/mars"
)

func init() { props["C01"] = runC01 }

// compareCore compares the real core with the reference core; full scan for
// small cores, otherwise the given addresses plus a window round the pc.
func compareCore(s g.Simulator, ref []mars.Insn, m int, full bool, addrs []int) (bool, string) {
	check := func(a int) (bool, string) {
		got, ok := fromG(s.GetMem(g.Address(a)))
		if !ok || got != ref[a] {
			return false, fmt.Sprintf("cell %d: gmars has %v, reference has %s", a, s.GetMem(g.Address(a)), insnStr(ref[a]))
		}
		return true, ""
	}
	if full {
		for a := 0; a < m; a++ {
			if ok, d := check(a); !ok {
				return false, d
			}
		}
		return true, ""
	}
	for _, a := range addrs {
		if ok, d := check(a); !ok {
			return false, d
		}
	}
	return true, ""
}

func runC01(c *Ctx) {
	n := int64(numForms) * 32
	if c.Thorough() {
		n = int64(numForms) * 1024
	}
	if c.Race {
		n /= 4
	}

	// strata: the boundary grid (walked completely), large cores, then the random cases
	nLarge := int64(6000)
	if c.Thorough() {
		nLarge = 200000
	}
	c.Cases(gridSize+nLarge+n, func(idx int64, r *Rng) {
		var sc *StepCase
		switch {
		case idx < gridSize:
			sc = genGridCase(idx, r)
			c.Inc("grid_cases")
		case idx < gridSize+nLarge:
			sc = genLargeCase(r)
			c.Inc("large_core_cases")
		default:
			sc = genStepCase(idx-gridSize-nLarge, r, c.Thorough(), false)
		}
		m := sc.M
		var s g.Simulator
		var w g.Warrior
		var err error
		if p, msg := try(func() { s, w, err = newStepSim(sc, sc.Core, sc.PC) }); p || err != nil {
			c.Violate("C01:setup:"+panicSite(msg), fmt.Sprintf("building the simulator failed: %v %s", err, msg), sc.describe())
			return
		}
		if m <= 4096 && r.Chance(1, 8) {
			// the same simulator after a first life: a step, Reset and a new spawn must leave nothing behind
			if p, msg := try(func() {
				s.RunCycle()
				s.Reset()
				wi := 0
				if sc.Bystanders > 0 {
					wi = 1
				}
				err = s.SpawnWarrior(wi, 0)
				if err == nil && sc.Bystanders > 0 {
					err = s.SpawnWarrior(2, g.Address(sc.HelperAt))
				}
			}); p || err != nil {
				c.Violate("C01:reuse:"+panicSite(msg), fmt.Sprintf("step, Reset, respawn failed: %v %s", err, msg), sc.describe())
				return
			}
			c.Inc("cases_on_a_reset_simulator")
		}
		ref, wi := sc.refFor(sc.Core, sc.PC)
		ref.Rec = true
		var last mars.TaskTrace
		ref.Trace = func(t mars.TaskTrace) {
			if t.Warrior == wi {
				last = t
			}
		}
		full := m <= 1024
		lc := limitClass(sc)
		for step := 0; step < sc.K; step++ {
			if len(ref.W[wi].Queue) == 0 {
				break
			}
			pc := ref.W[wi].Queue[0]
			form := formOf(ref.Core[pc])
			ref.RunCycle()
			if m <= 4096 && r.Chance(1, 4) {
				decoySim(sc, r) // a bystander simulator with other limits must not matter
				c.Inc("steps_with_bystander_simulator")
			}
			if p, msg := try(func() { s.RunCycle() }); p {
				c.Violate("C01:panic:"+panicSite(msg), msg, sc.describe())
				return
			}
			c.Inc("steps")
			addrs := []int{pc, (pc + 1) % m, (pc + m - 1) % m, last.Info.RA, last.Info.RB, last.Info.WB}
			for _, e := range last.Info.Events {
				addrs = append(addrs, e.Addr)
			}
			if ok, d := compareCore(s, ref.Core, m, full, addrs); !ok {
				c.Violate(fmt.Sprintf("C01:core:%s.%s", mars.OpNames[formInsn(form).Op], mars.ModNames[formInsn(form).Mod]),
					fmt.Sprintf("step %d at pc=%d (%s): %s", step, pc, insnStr(sc.Core[pc]), d), sc.describe())
				return
			}
			if q := w.Queue(); !queueEq(q, ref.W[wi].Queue) {
				c.Violate(fmt.Sprintf("C01:queue:%s.%s", mars.OpNames[formInsn(form).Op], mars.ModNames[formInsn(form).Mod]),
					fmt.Sprintf("step %d at pc=%d: gmars queue %v, reference queue %v", step, pc, q, ref.W[wi].Queue), sc.describe())
				return
			}
			if inv := verifInvariants(s); len(inv) > 0 {
				c.Violate("C01:invariant", fmt.Sprintf("step %d: %v", step, inv), sc.describe())
				return
			}
			// observation counters
			info := last.Info
			nontrivial := info.Died || info.NSucc == 2 || len(info.Events) > 0 || (info.NSucc == 1 && info.Succ[0] != (pc+1)%m)
			for _, e := range info.Events {
				switch e.Kind {
				case mars.EvDec:
					c.Inc("decrements")
				case mars.EvInc:
					c.Inc("increments")
				case mars.EvWrite:
					c.Inc("writes")
				}
			}
			if info.Died {
				c.Inc("task_deaths")
				if op := formInsn(form).Op; op == mars.DIV || op == mars.MOD {
					c.Inc("div0_deaths")
				}
			}
			if last.Dropped > 0 {
				c.Inc("dropped_pushes")
			}
			if len(ref.W[wi].Queue) > 1 {
				c.Inc("steps_with_queue_gt1")
			}
			c.Set("form_x_limitclass", fmt.Sprintf("%d|%s", form, lc))
			if nontrivial {
				c.Inc("nontrivial_steps")
				c.Nontrivial(fmt.Sprintf("%d|%s|%s", form, lc, mClass(m)))
			}
		}
		if !full {
			if ok, d := compareCore(s, ref.Core, m, true, nil); !ok {
				c.Violate("C01:core:final", "final full-core comparison: "+d, sc.describe())
				return
			}
		}
		c.Inc("limit_class_" + lc)
		c.Inc("mclass_" + mClass(m))
		if idx%977 == 0 {
			c.Sample(sc.describe())
		}
	})
}
