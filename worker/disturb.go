package main

import (
	"bufio"
	"errors"
	"hash/fnv"
	"io"
	"os"
	"strings"
	"testing/iotest"

	g "github.com/bobertlo/gmars"
)

// History disturbance.  The readers are pure functions of (text, configuration): what a process
// assembled or loaded before - successfully or not - must not show in the next result.  When
// disturbOn is set, compile() and loadFile() precede a third of the judged calls with one or two
// UNJUDGED calls in the same goroutine: sources that fail at different stages (lexer, parser,
// expression evaluation, late in the assembly under a different configuration), readers that
// break off with an I/O error, and a well-formed program that defines the judged text's own
// identifiers as EQUs with odd values.  Which disturbance precedes a call is a function of the
// text alone, so a replay reproduces it.
var disturbOn bool

var failingSources = []string{
	"dat #7, #1/0\n",
	"mov.i $ 0,\n",
	"mov 1,\n",
	"x equ x+1\ndat x\n",
	"step equ 3\nmov 5, step*2\ndat #7, #1/0\n",
	"mov 0, 1\nmul.x }-1, {-2\nnop >4000, *-3\nmov 0, 1\ndat 1/0\n",
	"mov 0, 1\nadd #4, 3\nmov 2, @2\njmp -2\ndat #0, #0\ndat undefined_symbol\n",
	"jmp 0 0\n",
	"foo 1, 2\n",
	"MOV.I $ 0, $ 1\nFOO.X $ 1, $ 2\n",
	"ORG 5\nMOV.I $ 0, $ 1\nEND\n",
	";assert 0\nmov 0, 1\n",
	"dat 2147483647+2147483647\n",
	"i for 2\ndat i/0\nrof\n",
}

type breakingReader struct {
	r io.Reader
	n int
}

func (b *breakingReader) Read(p []byte) (int, error) {
	if b.n <= 0 {
		return 0, errors.New("injected read error")
	}
	if len(p) > b.n {
		p = p[:b.n]
	}
	n, err := b.r.Read(p)
	b.n -= n
	return n, err
}

var disturbances int64

func disturb(text string, cfg g.SimulatorConfig) {
	if !disturbOn {
		return
	}
	h := fnv.New64a()
	h.Write([]byte(text))
	x := h.Sum64()
	if x%3 != 0 {
		return
	}
	x /= 3
	big := g.SimulatorConfig{Mode: g.ICWS94, CoreSize: 8000, Processes: 8000, Cycles: 80000, ReadLimit: 8000, WriteLimit: 8000, Length: 100, Distance: 100}
	other := cfg
	if x%2 == 0 {
		other = big
	}
	x /= 2
	disturbances++
	try(func() {
		switch x % 5 {
		case 0, 1:
			src := failingSources[(x/5)%uint64(len(failingSources))]
			g.CompileWarrior(strings.NewReader(src), other)
			if x%5 == 1 {
				g.ParseLoadFile(strings.NewReader(src), other)
			}
		case 2:
			// the judged text itself, breaking off with a read error somewhere inside
			n := 1
			if len(text) > 1 {
				n = 1 + int((x/5)%uint64(len(text)))
			}
			g.ParseLoadFile(&breakingReader{strings.NewReader(text), n}, cfg)
			g.CompileWarrior(&breakingReader{strings.NewReader(text), n}, cfg)
		case 3:
			// a well-formed program that gives the judged text's identifiers other meanings
			var b strings.Builder
			seen := map[string]bool{}
			for _, id := range identifiers(text) {
				if !seen[strings.ToLower(id)] && !reservedWord(id) {
					seen[strings.ToLower(id)] = true
					b.WriteString(id + " equ 4242\n")
				}
				if len(seen) >= 40 {
					break
				}
			}
			b.WriteString("dat 1, 2\n")
			g.CompileWarrior(strings.NewReader(b.String()), cfg)
		default:
			// a failure, then the breaking reader
			src := failingSources[(x/5)%uint64(len(failingSources))]
			g.CompileWarrior(strings.NewReader(src), cfg)
			g.ParseLoadFile(&breakingReader{strings.NewReader(src), 1 + len(src)/2}, other)
		}
	})
}

func identifiers(text string) []string {
	var out []string
	// comments carry no identifiers
	for _, line := range strings.Split(text, "\n") {
		if i := strings.IndexByte(line, ';'); i >= 0 {
			line = line[:i]
		}
		start := -1
		for i := 0; i <= len(line); i++ {
			isId := i < len(line) && (line[i] == '_' || line[i] >= 'a' && line[i] <= 'z' || line[i] >= 'A' && line[i] <= 'Z' || (start >= 0 && line[i] >= '0' && line[i] <= '9'))
			if isId && start < 0 {
				start = i
			} else if !isId && start >= 0 {
				if i < len(line) && line[i] >= 0x80 {
					start = -1 // part of a non-ASCII word: leave it alone
					continue
				}
				out = append(out, line[start:i])
				start = -1
			}
		}
	}
	return out
}

func reservedWord(id string) bool {
	switch strings.ToLower(id) {
	case "dat", "mov", "add", "sub", "mul", "div", "mod", "jmp", "jmz", "jmn", "djn", "cmp", "seq", "sne", "slt", "spl", "nop",
		"equ", "org", "end", "for", "rof", "a", "b", "ab", "ba", "f", "x", "i",
		"coresize", "maxlength", "maxprocesses", "mindistance", "maxcycles", "curline", "version", "warriors", "pspacesize":
		return true
	}
	return false
}

// withDisturb switches the history disturbance on for a check; the returned function records how
// many judged calls were preceded by one.
func withDisturb(c *Ctx) func() {
	disturbOn = true
	return func() {
		c.Count("judged_reader_calls_preceded_by_unjudged_failing_or_colliding_calls", disturbances)
		for k, v := range deliveries {
			c.Count("texts_delivered_through_"+k, v)
		}
	}
}

// deliver chooses how the text reaches the reader under test.  What a reader returns is a function of
// the bytes, not of the io.Reader that carries them: most calls get a strings.Reader, some (chosen by
// the text, so that replays agree) get one byte per Read, a bufio.Reader, a pipe (*os.File that is not
// a regular file) or a regular temporary file.
var deliveries = map[string]int64{}

func deliver(text string) (io.Reader, func()) {
	if !disturbOn {
		return strings.NewReader(text), func() {}
	}
	h := fnv.New64a()
	h.Write([]byte(text))
	h.Write([]byte{1})
	switch x := h.Sum64() % 24; {
	case x == 0:
		deliveries["one_byte_per_read"]++
		return iotest.OneByteReader(strings.NewReader(text)), func() {}
	case x == 1:
		deliveries["bufio"]++
		return bufio.NewReaderSize(strings.NewReader(text), 16), func() {}
	case x == 4:
		// the last bytes arrive together with io.EOF (as from gzip/zip streams)
		deliveries["data_with_eof"]++
		return iotest.DataErrReader(strings.NewReader(text)), func() {}
	case x == 5:
		deliveries["data_with_eof_in_small_chunks"]++
		return iotest.DataErrReader(iotest.HalfReader(strings.NewReader(text))), func() {}
	case x == 2 && len(text) < 1<<20:
		pr, pw, err := os.Pipe()
		if err != nil {
			break
		}
		deliveries["pipe"]++
		go func() {
			io.WriteString(pw, text)
			pw.Close()
		}()
		return pr, func() { pr.Close() }
	case x == 3 && len(text) < 1<<20:
		f, err := os.CreateTemp(os.Getenv("VERIF_WORK"), "deliver-*.red")
		if err != nil {
			break
		}
		deliveries["regular_file"]++
		f.WriteString(text)
		f.Seek(0, io.SeekStart)
		return f, func() { f.Close(); os.Remove(f.Name()) }
	}
	return strings.NewReader(text), func() {}
}
