package main

import (
	"fmt"
	"os"
	"runtime"
	"strings"
	"sync"
	"syscall"
	"time"
)

// Progress monitor.  A guarded call runs on the worker's main goroutine; a
// monitor goroutine watches it.  The wall clock only *triggers* an
// examination; the verdict is logical:
//   - hang:     the process consumed at least `budget` of CPU time inside the call
//   - deadlock: the calling goroutine is blocked in a channel operation inside
//     gmars, no other goroutine with a gmars frame is runnable, and the
//     process consumed no CPU between two examinations
// Either verdict records a violation, writes the shard result and ends the
// worker (the stuck call cannot be cancelled).

type guardState struct {
	mu       sync.Mutex
	active   bool
	gen      uint64
	startCPU time.Duration
	start    time.Time
	budget   time.Duration
	sig      string
	desc     interface{}
	once     sync.Once
}

var gs guardState

func cpuNow() time.Duration {
	var ru syscall.Rusage
	syscall.Getrusage(syscall.RUSAGE_SELF, &ru)
	return time.Duration(ru.Utime.Nano() + ru.Stime.Nano())
}

// Guarded runs f under the progress monitor. sig is the violation signature
// prefix, desc the case description written to the replay file.
func (c *Ctx) Guarded(budget time.Duration, sig string, desc interface{}, f func()) {
	gs.once.Do(func() { go c.guardLoop() })
	gs.mu.Lock()
	gs.active = true
	gs.gen++
	gs.startCPU = cpuNow()
	gs.start = time.Now()
	gs.budget = budget
	gs.sig = sig
	gs.desc = desc
	gs.mu.Unlock()
	f()
	gs.mu.Lock()
	gs.active = false
	gs.mu.Unlock()
}

func (c *Ctx) guardLoop() {
	var lastGen uint64
	var lastCPU time.Duration
	idleStrikes := 0
	for {
		time.Sleep(250 * time.Millisecond)
		gs.mu.Lock()
		active, gen, startCPU, start, budget, sig, desc := gs.active, gs.gen, gs.startCPU, gs.start, gs.budget, gs.sig, gs.desc
		gs.mu.Unlock()
		if !active || time.Since(start) < time.Second {
			idleStrikes = 0
			lastGen = 0
			continue
		}
		cpu := cpuNow() - startCPU
		if cpu >= budget {
			c.Violate(sig+":hang", fmt.Sprintf("the call did not return after consuming %.1fs of CPU time (budget %.1fs); main goroutine: %s", cpu.Seconds(), budget.Seconds(), mainGoroutineTop()), desc)
			c.Count("aborted_after_hang", 1)
			c.finish()
			os.Exit(0)
		}
		// deadlock examination
		if gen == lastGen && cpu-lastCPU < 20*time.Millisecond {
			blocked, where := mainBlockedInGmars()
			if blocked {
				idleStrikes++
				if idleStrikes >= 4 {
					c.Violate(sig+":deadlock", "the call is blocked forever: "+where, desc)
					c.Count("aborted_after_deadlock", 1)
					c.finish()
					os.Exit(0)
				}
			} else {
				idleStrikes = 0
			}
		} else {
			idleStrikes = 0
		}
		lastGen, lastCPU = gen, cpu
	}
}

func allStacks() string {
	buf := make([]byte, 1<<20)
	n := runtime.Stack(buf, true)
	return string(buf[:n])
}

func mainGoroutineTop() string {
	for _, blk := range strings.Split(allStacks(), "\n\n") {
		if strings.Contains(blk, "main.main()") {
			lines := strings.Split(blk, "\n")
			var keep []string
			for _, l := range lines {
				if strings.Contains(l, "gmars.") {
					keep = append(keep, strings.TrimSpace(l))
					if len(keep) >= 4 {
						break
					}
				}
			}
			return lines[0] + " " + strings.Join(keep, " < ")
		}
	}
	return "?"
}

// mainBlockedInGmars reports whether the main goroutine is blocked in a channel
// operation below a gmars frame while no goroutine with a gmars frame is runnable.
func mainBlockedInGmars() (bool, string) {
	st := allStacks()
	mainBlocked := false
	where := ""
	for _, blk := range strings.Split(st, "\n\n") {
		lines := strings.Split(blk, "\n")
		if len(lines) == 0 {
			continue
		}
		head := lines[0]
		hasGmars := strings.Contains(blk, "github.com/bobertlo/gmars.")
		isMain := strings.Contains(blk, "main.main()")
		blockedState := strings.Contains(head, "[chan receive") || strings.Contains(head, "[chan send") || strings.Contains(head, "[select")
		if isMain {
			if hasGmars && blockedState {
				mainBlocked = true
				where = head
				for _, l := range lines {
					if strings.Contains(l, "gmars.") {
						where += " in " + strings.TrimSpace(l)
						break
					}
				}
			}
			continue
		}
		if hasGmars && !blockedState {
			return false, "" // a gmars goroutine may still make progress
		}
	}
	return mainBlocked, where
}

// gmarsGoroutines returns the header+top gmars frame of every goroutine
// (other than the caller's) that has a gmars frame on its stack.
func gmarsGoroutines() []string {
	var out []string
	for _, blk := range strings.Split(allStacks(), "\n\n") {
		if strings.Contains(blk, "main.main()") || !strings.Contains(blk, "github.com/bobertlo/gmars.") {
			continue
		}
		lines := strings.Split(blk, "\n")
		d := lines[0]
		for _, l := range lines {
			if strings.Contains(l, "gmars.") {
				d += " " + strings.TrimSpace(l)
				break
			}
		}
		out = append(out, d)
	}
	return out
}
