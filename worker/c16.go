package main

import (
	"fmt"
	"strings"

	g "github.com/bobertlo/gmars"

	"verif/ref/asm"
	"verif/ref/mars"
)

func init() { props["C16"] = runC16 }

func runC16(c *Ctx) {
	n := int64(80000)
	if c.Thorough() {
		n = 5000000
	}
	c.Cases(n, func(idx int64, r *Rng) {
		d := asm.D94
		if idx%3 == 2 {
			d = asm.D88
		}
		m := []int{3, 7, 80, 257, 8000, 8191, 8192}[r.Intn(7)]
		if r.Chance(1, 60) {
			m = 1 << 20
		}
		maxLen := []int{1, 4, 12}[r.Intn(3)]
		if maxLen > m {
			maxLen = m
		}
		cfg := asm.Config{Dialect: d, CoreSize: m, Length: maxLen, Processes: 8}
		mode := []g.SimulatorMode{g.ICWS94, g.NOP94}[r.Intn(2)]
		gc := gcfg(cfg, mode)
		code, start := genWarrior(r, idx, d, m, maxLen)
		if idx < 6 {
			code, start = nil, 0 // the empty program (it assembles, and its listing must denote it)
		}
		// fields at the sign threshold
		if len(code) > 0 && r.Chance(1, 2) {
			k := r.Intn(len(code))
			code[k].A = []int{0, m / 2, (m/2 + 1) % m, m - 1}[r.Intn(4)]
			code[k].B = []int{0, m / 2, (m/2 + 1) % m, m - 1}[r.Intn(4)]
		}
		// source of the warrior: the real assembler, the real loader, or hand-made data
		source := []string{"assembler", "loader", "direct"}[r.Intn(3)]
		var wd g.WarriorData
		text := strings.Join(asm.PrintLoadFile(code, start, d, m, r.Intn(2), r), "\n") + "\n"
		var err error
		var pm string
		switch source {
		case "assembler":
			wd, err, pm = compile(text, gc)
		case "loader":
			wd, err, pm = loadFile(text, gc)
		default:
			wd = g.WarriorData{Name: "direct", Author: "nobody", Code: toGCode(code), Start: start}
		}
		cs := func(listing string) interface{} {
			return map[string]interface{}{"config": gc, "source": source, "warrior": coreStr(code), "start": start, "listing": listing}
		}
		if len(code) == 0 && pm == "" && err != nil {
			// a reader may refuse the empty program (the '94 load-file reader does): nothing to list then
			c.Inc("empty_program_refused_by_" + source)
			return
		}
		if pm != "" || err != nil {
			c.Violate("C16:source-failed:"+source, fmt.Sprintf("could not produce the warrior through the %s: %v %s", source, err, pm), cs(text))
			return
		}
		if dd := diffCode(wd.Code, code); dd != "" || wd.Start != start {
			// a wrong assembly is C09's business; C16 needs the warrior itself
			c.Inc("skipped_source_disagrees")
			return
		}
		var listing string
		history := "after-add"
		if p, msg := try(func() {
			s, e := g.NewSimulator(gc)
			if e != nil {
				panic(e)
			}
			w, e := s.AddWarrior(&wd)
			if e != nil {
				panic(e)
			}
			// the listing denotes the warrior whatever the simulator did in between
			switch r.Intn(4) {
			case 1:
				s.SpawnWarrior(0, g.Address(r.Intn(3*m)))
				history = "after-spawn"
			case 2:
				s.SpawnWarrior(0, g.Address(r.Intn(3*m)))
				s.RunCycle()
				s.RunCycle()
				history = "after-spawn-and-cycles"
			case 3:
				s.SpawnWarrior(0, g.Address(1+r.Intn(m-1)))
				s.RunCycle()
				s.Reset()
				history = "after-reset"
			}
			listing = w.LoadCode()
		}); p {
			c.Violate("C16:panic:"+panicSite(msg), msg, cs(""))
			return
		}
		c.Inc("listings_read")
		c.Inc("source_" + source)
		c.Inc("listing_" + history)
		gotCode, gotStart, rerr := asm.ReadListing(listing, d, m)
		if rerr != nil {
			c.Violate("C16:unreadable", fmt.Sprintf("the listing does not follow the pMARS listing conventions: %v", rerr), cs(listing))
			return
		}
		if len(gotCode) != len(code) {
			c.Violate("C16:length", fmt.Sprintf("the listing denotes %d instructions, the warrior has %d", len(gotCode), len(code)), cs(listing))
			return
		}
		for i := range code {
			if gotCode[i] != code[i] {
				what := "instruction"
				if gotCode[i].A != code[i].A || gotCode[i].B != code[i].B {
					what = "field"
				}
				c.Violate("C16:"+what, fmt.Sprintf("line %d of the listing denotes %s, the warrior has %s", i, insnStr(gotCode[i]), insnStr(code[i])), cs(listing))
				return
			}
		}
		if gotStart != start {
			c.Violate("C16:start", fmt.Sprintf("the listing's START is instruction %d, the entry point is %d", gotStart, start), cs(listing))
			return
		}
		if len(code) == 0 {
			c.Inc("empty_warriors_listed")
			return
		}
		c.Set("forms_listed", fmt.Sprintf("%d|%d", d, formOf(code[0])))
		thr := false
		for _, ins := range code {
			if ins.A > m/2 || ins.B > m/2 {
				thr = true
			}
			if ins.A == m/2 || ins.A == m/2+1 || ins.B == m/2 || ins.B == m/2+1 {
				c.Inc("fields_at_sign_threshold")
			}
		}
		if start != 0 || thr {
			fc := code[0]
			c.Nontrivial(fmt.Sprintf("%d|%d|%d|%d|%d", d, fc.Op, fc.Mod, fc.AM, fc.BM))
			c.Inc("nontrivial_listings")
		}
		if idx%1999 == 2 {
			c.Sample(cs(listing))
		}
	})
}

var _ = mars.DAT
