package main

import (
	"bytes"
	"fmt"
	"os"
	"os/exec"
	"path/filepath"
	"strconv"
	"strings"

	g "github.com/bobertlo/gmars"

	"verif/ref/asm"
	"verif/ref/mars"
)

func init() { props["C16"] = runC16 }

func runC16(c *Ctx) {
	defer withDisturb(c)()
	n := int64(80000)
	if c.Thorough() {
		n = 5000000
	}
	c.Cases(n, func(idx int64, r *Rng) {
		d := asm.D94
		if idx%3 == 2 {
			d = asm.D88
		}
		m := []int{3, 7, 80, 257, 8000, 8191, 8192}[r.Intn(7)]
		if r.Chance(1, 60) {
			m = 1 << 20
		}
		maxLen := []int{1, 4, 12}[r.Intn(3)]
		if maxLen > m {
			maxLen = m
		}
		cfg := asm.Config{Dialect: d, CoreSize: m, Length: maxLen, Processes: 8}
		mode := []g.SimulatorMode{g.ICWS94, g.NOP94}[r.Intn(2)]
		gc := gcfg(cfg, mode)
		if r.Chance(1, 3) {
			// read/write limits, process and cycle limits have nothing to do with the listing
			gc.ReadLimit, gc.WriteLimit = g.Address(r.Range(1, m)), g.Address(r.Range(1, m))
			gc.Processes, gc.Cycles = g.Address(r.Range(1, 9000)), g.Address(r.Range(1, 100000))
		}
		if idx%40 == 39 && os.Getenv("GMARS_BIN") != "" {
			cliListing(c, idx, r)
			return
		}
		if idx%12 == 7 && idx >= 12 {
			// several warriors in one simulator, added and listed in any order: every listing denotes ITS warrior
			k := r.Range(2, 6)
			type lw struct {
				code  []mars.Insn
				start int
				h     g.Warrior
			}
			var all []*lw
			s, e := g.NewSimulator(gc)
			if e != nil {
				return
			}
			listed := 0
			fail := false
			listOne := func(i int) {
				w := all[i]
				var l string
				if p, msg := try(func() { l = w.h.LoadCode() }); p {
					c.Violate("C16:panic:"+panicSite(msg), msg, map[string]interface{}{"config": gc, "warriors": len(all), "listed": i})
					fail = true
					return
				}
				got, gs, rerr := asm.ReadListing(l, d, m)
				ok := rerr == nil && len(got) == len(w.code) && gs == w.start
				for j := 0; ok && j < len(got); j++ {
					ok = got[j] == w.code[j]
				}
				if !ok {
					c.Violate("C16:listing-of-another-warrior", fmt.Sprintf("%d warriors in one simulator, listed in an order of their own: the listing of warrior %d does not denote it (read error: %v)", len(all), i, rerr),
						map[string]interface{}{"config": gc, "warrior": coreStr(w.code), "start": w.start, "listing": l, "index": i})
					fail = true
				}
				listed++
			}
			for len(all) < k && !fail {
				code, start := genWarrior(r, int64(r.Intn(numForms)), d, m, maxLen)
				h, e := s.AddWarrior(&g.WarriorData{Name: fmt.Sprint("w", len(all)), Code: toGCode(code), Start: start})
				if e != nil {
					return
				}
				all = append(all, &lw{code, start, h})
				for n := r.Intn(3); n > 0 && !fail; n-- {
					listOne(r.Intn(len(all)))
				}
			}
			for n := 0; n < 2*k && !fail; n++ {
				listOne(r.Intn(len(all)))
			}
			if !fail {
				c.Count("listings_of_several_warriors_in_random_order", int64(listed))
				c.Inc("listings_read")
			}
			return
		}
		code, start := genWarrior(r, idx, d, m, maxLen)
		if idx < 6 {
			code, start = nil, 0 // the empty program (it assembles, and its listing must denote it)
		}
		// fields at the sign threshold
		if len(code) > 0 && r.Chance(1, 2) {
			k := r.Intn(len(code))
			code[k].A = []int{0, m / 2, (m/2 + 1) % m, m - 1}[r.Intn(4)]
			code[k].B = []int{0, m / 2, (m/2 + 1) % m, m - 1}[r.Intn(4)]
		}
		// source of the warrior: the real assembler, the real loader, or hand-made data
		source := []string{"assembler", "loader", "direct"}[r.Intn(3)]
		if source == "direct" && m <= 80 && idx >= 6 && r.Chance(1, 5) {
			// AddWarrior takes any length: a warrior longer than the core, with its entry point anywhere in it
			for len(code) <= m+r.Intn(m+2) {
				more, _ := genWarrior(r, int64(r.Intn(numForms)), d, m, maxLen)
				code = append(code, more...)
			}
			start = r.Intn(len(code))
			c.Inc("warriors_longer_than_the_core")
		}
		var wd g.WarriorData
		text := strings.Join(asm.PrintLoadFile(code, start, d, m, r.Intn(2), r), "\n") + "\n"
		var err error
		var pm string
		switch source {
		case "assembler":
			wd, err, pm = compile(text, gc)
		case "loader":
			wd, err, pm = loadFile(text, gc)
		default:
			wd = g.WarriorData{Name: "direct", Author: "nobody", Code: toGCode(code), Start: start}
		}
		cs := func(listing string) interface{} {
			return map[string]interface{}{"config": gc, "source": source, "warrior": coreStr(code), "start": start, "listing": listing}
		}
		if len(code) == 0 && pm == "" && err != nil {
			// a reader may refuse the empty program (the '94 load-file reader does): nothing to list then
			c.Inc("empty_program_refused_by_" + source)
			return
		}
		if pm != "" || err != nil {
			c.Violate("C16:source-failed:"+source, fmt.Sprintf("could not produce the warrior through the %s: %v %s", source, err, pm), cs(text))
			return
		}
		if dd := diffCode(wd.Code, code); dd != "" || wd.Start != start {
			// a wrong assembly is C09's business; C16 needs the warrior itself
			c.Inc("skipped_source_disagrees")
			return
		}
		var listing string
		history := "after-add"
		twice := r.Chance(1, 5)
		keep := r.Chance(1, 3)
		var kept string
		if p, msg := try(func() {
			s, e := g.NewSimulator(gc)
			if e != nil {
				panic(e)
			}
			var w g.Warrior
			if twice {
				// callers fill one WarriorData variable again and again: an earlier warrior added through the
				// same pointer must not be what the listing of this one shows
				other, _ := genWarrior(r, int64(r.Intn(numForms)), d, m, maxLen)
				shared := g.WarriorData{Name: "earlier", Author: "x", Code: toGCode(other), Start: 0}
				if _, e = s.AddWarrior(&shared); e != nil {
					panic(e)
				}
				shared = wd
				shared.Code = append([]g.Instruction(nil), wd.Code...)
				w, e = s.AddWarrior(&shared)
			} else {
				w, e = s.AddWarrior(&wd)
			}
			if e != nil {
				panic(e)
			}
			wi := s.WarriorCount() - 1
			// the listing denotes the warrior whatever the simulator did in between
			switch r.Intn(5) {
			case 4:
				// the simulator is reset and takes another warrior afterwards: the earlier one keeps its own code
				s.Reset()
				other, _ := genWarrior(r, int64(r.Intn(numForms)), d, m, maxLen)
				s.AddWarrior(&g.WarriorData{Name: "later", Author: "y", Code: toGCode(other), Start: 0})
				history = "after-reset-and-another-add"
			case 1:
				s.SpawnWarrior(wi, g.Address(r.Intn(3*m)))
				history = "after-spawn"
			case 2:
				s.SpawnWarrior(wi, g.Address(r.Intn(3*m)))
				s.RunCycle()
				s.RunCycle()
				history = "after-spawn-and-cycles"
			case 3:
				s.SpawnWarrior(wi, g.Address(1+r.Intn(m-1)))
				s.RunCycle()
				s.Reset()
				history = "after-reset"
			}
			listing = w.LoadCode()
			if keep {
				// a listing is a value: it stays what it was, whatever is listed afterwards
				kept = strings.Clone(listing)
				tiny, e := s.AddWarrior(&g.WarriorData{Name: "tiny", Code: []g.Instruction{{Op: g.DAT, OpMode: g.F, AMode: g.IMMEDIATE, BMode: g.IMMEDIATE, B: 1}}})
				if e == nil {
					tiny.LoadCode()
				}
				for i := 0; i < s.WarriorCount(); i++ {
					s.GetWarrior(i).LoadCode()
				}
			}
		}); p {
			c.Violate("C16:panic:"+panicSite(msg), msg, cs(""))
			return
		}
		c.Inc("listings_read")
		if keep {
			if kept != listing {
				c.Violate("C16:listing-changed-afterwards", "the text returned by LoadCode changed after other warriors of the simulator were listed", cs(kept))
				return
			}
			c.Inc("listings_rechecked_after_later_listings")
		}
		c.Inc("source_" + source)
		c.Inc("listing_" + history)
		if twice {
			c.Inc("listings_of_second_warrior_added_through_the_same_pointer")
		}
		gotCode, gotStart, rerr := asm.ReadListing(listing, d, m)
		if rerr != nil {
			c.Violate("C16:unreadable", fmt.Sprintf("the listing does not follow the pMARS listing conventions: %v", rerr), cs(listing))
			return
		}
		if len(gotCode) != len(code) {
			c.Violate("C16:length", fmt.Sprintf("the listing denotes %d instructions, the warrior has %d", len(gotCode), len(code)), cs(listing))
			return
		}
		for i := range code {
			if gotCode[i] != code[i] {
				what := "instruction"
				if gotCode[i].A != code[i].A || gotCode[i].B != code[i].B {
					what = "field"
				}
				c.Violate("C16:"+what, fmt.Sprintf("line %d of the listing denotes %s, the warrior has %s", i, insnStr(gotCode[i]), insnStr(code[i])), cs(listing))
				return
			}
		}
		if gotStart != start {
			c.Violate("C16:start", fmt.Sprintf("the listing's START is instruction %d, the entry point is %d", gotStart, start), cs(listing))
			return
		}
		if len(code) == 0 {
			c.Inc("empty_warriors_listed")
			return
		}
		c.Set("forms_listed", fmt.Sprintf("%d|%d", d, formOf(code[0])))
		thr := false
		for _, ins := range code {
			if ins.A > m/2 || ins.B > m/2 {
				thr = true
			}
			if ins.A == m/2 || ins.A == m/2+1 || ins.B == m/2 || ins.B == m/2+1 {
				c.Inc("fields_at_sign_threshold")
			}
		}
		if start != 0 || thr {
			fc := code[0]
			c.Nontrivial(fmt.Sprintf("%d|%d|%d|%d|%d", d, fc.Op, fc.Mod, fc.AM, fc.BM))
			c.Inc("nontrivial_listings")
		}
		if idx%1999 == 2 {
			c.Sample(cs(listing))
		}
	})
}

var _ = mars.DAT

// cliListing checks the text behind the -A option itself: the freshly built cmd/gmars is run with -A
// on a by-construction program under presets and flag vectors, and its output is read back with the
// listing conventions of the rule set and core size THOSE OPTIONS describe.
func cliListing(c *Ctx, idx int64, r *Rng) {
	bin, work := os.Getenv("GMARS_BIN"), os.Getenv("VERIF_WORK")
	var args []string
	var cfg asm.Config
	flagset := ""
	if r.Chance(1, 2) {
		names := []string{"nop94", "88", "icws", "noptiny", "nop256", "nopnano"}
		name := names[r.Intn(len(names))]
		row := readmePresets[name]
		args = []string{"-preset", name}
		cfg = asm.Config{Dialect: row.dialect, CoreSize: row.size, Length: row.length, Processes: row.processes, Distance: row.distance}
		flagset = "preset:" + name
	} else {
		cfg = asm.Config{Dialect: asm.D94, CoreSize: 8000, Length: 100, Processes: 8000, Distance: 100}
		if r.Chance(1, 2) {
			args = append(args, "-8")
			cfg.Dialect = asm.D88
			flagset += "-8"
		}
		if r.Chance(1, 2) {
			cfg.CoreSize = []int{80, 257, 800, 8191, 8192, 55440}[r.Intn(6)]
			if cfg.Length > cfg.CoreSize/3 {
				cfg.Length = cfg.CoreSize / 4
				args = append(args, "-l", strconv.Itoa(cfg.Length))
			}
			cfg.Distance = cfg.Length
			args = append(args, "-s", strconv.Itoa(cfg.CoreSize))
			flagset += "-s"
		}
	}
	var p *asm.Prog
	var mn *asm.Meaning
	for t := 0; t < 30 && mn == nil; t++ {
		p = asm.GenProg(r, asm.GenOpts{Cfg: cfg, MaxLines: 1 + r.Intn(min(cfg.Length, 8)), UseLabels: true, UseEqus: r.Bool(), UseConsts: r.Bool(), Meta: r.Bool()})
		if m2, err := p.Meaning(); err == nil && len(m2.Code) > 0 {
			mn = m2
		}
	}
	if mn == nil {
		return
	}
	text := asm.Render(p, randStyle(r, progNames(p)))
	f := filepath.Join(work, fmt.Sprintf("c16-%d-%d.red", os.Getpid(), idx))
	os.WriteFile(f, []byte(text), 0o644)
	defer os.Remove(f)
	args = append(args, "-A", f)
	cmd := exec.Command(bin, args...)
	var so, se bytes.Buffer
	cmd.Stdout, cmd.Stderr = &so, &se
	err := cmd.Run()
	cs := map[string]interface{}{"args": args, "source": text, "stdout": so.String(), "stderr": se.String(), "want": coreStr(mn.Code), "want_start": mn.Start}
	c.Inc("cli_listings")
	if err != nil || se.Len() > 0 {
		c.Violate("C16:cli-A-failed", fmt.Sprintf("gmars -A failed (%v, stderr %q) on a well-formed warrior", err, se.String()), cs)
		return
	}
	code, start, rerr := asm.ReadListing(so.String(), cfg.Dialect, cfg.CoreSize)
	if rerr != nil {
		c.Violate("C16:cli-A-unreadable", fmt.Sprintf("the -A listing does not follow the pMARS listing conventions of the rule set the options select (%s): %v", flagset, rerr), cs)
		return
	}
	if len(code) != len(mn.Code) || start != mn.Start {
		c.Violate("C16:cli-A-shape", fmt.Sprintf("the -A listing denotes %d instructions with entry %d, the warrior has %d with entry %d", len(code), start, len(mn.Code), mn.Start), cs)
		return
	}
	for i := range code {
		if code[i] != mn.Code[i] {
			c.Violate("C16:cli-A-field", fmt.Sprintf("options %s: line %d of the -A listing denotes %s, the warrior has %s", flagset, i, insnStr(code[i]), insnStr(mn.Code[i])), cs)
			return
		}
	}
	c.Nontrivial("cli|" + flagset)
}
