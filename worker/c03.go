package main

import (
	"fmt"

	g "github.com/bobertlo/gmars"

	"verif/ref/asm"
)

func init() { props["C03"] = runC03 }

func runC03(c *Ctx) {
	defer withDisturb(c)()
	runPinned(c, "C03")
	n := int64(72000)
	if c.Thorough() {
		n = 4000000
	}
	c.Cases(n, func(idx int64, r *Rng) {
		d := asm.D94
		if r.Chance(1, 3) {
			d = asm.D88
		}
		cfg := randAsmConfig(r, d)
		o := asm.GenOpts{Cfg: cfg, MaxLines: 1 + r.Intn(12), UseLabels: r.Chance(3, 4), UseEqus: r.Chance(1, 2), UseConsts: r.Chance(1, 2), Meta: r.Chance(1, 2), EndLabel: true}
		if cfg.Length == cfg.CoreSize && r.Chance(1, 2) {
			o.ExactLines = cfg.Length // a program that fills its tiny core completely
		}
		if cfg.Length >= 300 && cfg.CoreSize > 1000 && r.Chance(1, 8) {
			// a long program with a label on every line: more than 256 lines and labels
			o.ExactLines = r.Range(257, 300)
			o.ManyLabels = true
			o.UseLabels = true
			c.Inc("long_programs_with_a_label_per_line")
		}
		p := asm.GenProg(r, o)
		if o.ExactLines == 0 && r.Chance(1, 8) {
			// lines that differ only in where the text splits into operands: "12, 3" / "1, 23" / "12" / "1, 2", "5-2" / "5, -2"
			lit := func(v int) asm.Expr { return asm.Lit{V: v} }
			op := []string{"dat", "mov", "add", "jmp"}[r.Intn(4)]
			x, y, z := 1+r.Intn(9), r.Intn(10), 1+r.Intn(9)
			two := func(a, b asm.Expr) *asm.Instr { return &asm.Instr{Op: op, A: asm.Operand{E: a}, B: &asm.Operand{E: b}} }
			one := func(a asm.Expr) *asm.Instr { return &asm.Instr{Op: op, A: asm.Operand{E: a}} }
			var twins []asm.Item
			switch r.Intn(3) {
			case 0:
				twins = []asm.Item{two(lit(x), lit(y*10+z)), two(lit(x*10+y), lit(z))}
			case 1:
				twins = []asm.Item{two(lit(x), lit(z)), one(lit(x*10 + z))}
			default:
				twins = []asm.Item{two(lit(x), asm.Un{Signs: "-", X: lit(z)}), one(asm.Bin{Op: '-', L: lit(x), R: lit(z)})}
			}
			if r.Bool() {
				twins[0], twins[1] = twins[1], twins[0]
			}
			if op == "jmp" || op == "dat" || d == asm.D94 {
				p.Items = append(p.Items, twins...)
				c.Inc("programs_with_lines_differing_only_in_the_operand_split")
			}
		}
		mn, err := p.Meaning()
		if err != nil {
			c.Inc("skipped_outside_domain")
			c.res.Evaluations--
			return
		}
		mode := []g.SimulatorMode{g.ICWS94, g.NOP94}[r.Intn(2)]
		gc := gcfg(cfg, mode)
		names := progNames(p)
		c.Inc("programs")
		feat := ""
		if o.UseLabels {
			feat += "L"
		}
		if o.UseEqus {
			feat += "E"
		}
		if o.UseConsts {
			feat += "C"
		}
		if p.EndArg != nil {
			feat += "e"
		}
		defaulted := false
		opset := 0
		for _, it := range p.Items {
			if ins, ok := it.(*asm.Instr); ok {
				if ins.Mod == "" && d == asm.D94 {
					defaulted = true
					c.Set("default_modifier_cases", ins.Op+string(rune('0'+ins.A.Mode%10))+fmt.Sprint(ins.B != nil && ins.B.Mode == '#'))
				}
				if ins.A.Mode == 0 || (ins.B != nil && ins.B.Mode == 0) {
					c.Inc("defaulted_modes")
				}
				if ins.B == nil {
					c.Inc("lone_operands")
				}
				op, _ := asm.OpByName(ins.Op)
				opset |= 1 << (uint(op) / 3)
			}
		}
		nren := 3
		if c.Thorough() {
			nren = 4
		}
		for k := 0; k < nren; k++ {
			st := randStyle(r, names)
			if k == 0 {
				st = &asm.Style{R: r, Spacing: 1, WithEnd: true} // the plain rendering
			}
			text := asm.Render(p, st)
			wd, err, pm := compile(text, gc)
			c.Inc("renderings")
			cs := func() interface{} { return mkAsmCase(gc, text, mn, "") }
			if pm != "" {
				c.Violate("C03:panic:"+panicSite(pm), pm, cs())
				return
			}
			if err != nil {
				c.Violate("C03:rejected", fmt.Sprintf("a well-formed program (rendering %d) was rejected: %v", k, err), cs())
				return
			}
			if dd := diffCode(wd.Code, mn.Code); dd != "" {
				c.Violate("C03:code:"+diffClass(dd), fmt.Sprintf("rendering %d: %s", k, dd), cs())
				return
			}
			if wd.Start != mn.Start {
				c.Violate("C03:start", fmt.Sprintf("rendering %d: entry point: gmars %d, expected %d", k, wd.Start, mn.Start), cs())
				return
			}
			if wd.Name != mn.Name || wd.Author != mn.Author || wd.Strategy != mn.Strategy {
				c.Violate("C03:metadata", fmt.Sprintf("rendering %d: metadata: gmars (%q,%q,%q), expected (%q,%q,%q)", k, wd.Name, wd.Author, wd.Strategy, mn.Name, mn.Author, mn.Strategy), cs())
				return
			}
			c.Count("instructions_compared", int64(len(mn.Code)))
			if k == 1 && idx%997 == 0 {
				c.Sample(cs())
			}
		}
		if (o.UseLabels && o.UseEqus) || defaulted {
			c.Nontrivial(fmt.Sprintf("%d|%s|%v|%x|len%d", d, feat, defaulted, opset, len(mn.Code)/3))
			c.Inc("nontrivial_programs")
		}
	})
}
