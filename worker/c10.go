package main

import (
	"fmt"
	"strings"

	g "github.com/bobertlo/gmars"

	"verif/ref/asm"
	"verif/ref/mars"
)

func init() { props["C10"] = runC10 }

var badNumbers = []string{"-1", "99999999999999999999999999", "-99999999999999999999", "abc", "1.5", "0x10", "+", "--3", "1e3", "9223372036854775807", "-9223372036854775808", "2147483648", "٣", "1_0"}

// corrupt applies one random corruption to the canonical lines; returns the kind.
func corrupt(lines []string, d asm.Dialect, m int, r *Rng) ([]string, string) {
	out := append([]string{}, lines...)
	if len(out) == 0 {
		out = []string{""}
	}
	// instruction line indexes
	var il []int
	for i, l := range out {
		t := strings.ToUpper(strings.TrimSpace(l))
		if !strings.HasPrefix(t, "ORG") && !strings.HasPrefix(t, "END") {
			il = append(il, i)
		}
	}
	pickLine := func() int {
		if len(il) == 0 {
			return 0
		}
		return il[r.Intn(len(il))]
	}
	fieldsOf := func(l string) []string {
		f := strings.Fields(strings.ReplaceAll(l, ",", " , "))
		if len(f) == 0 {
			f = []string{"MOV.I"}
		}
		return f
	}
	join := func(f []string) string { return "   " + strings.Join(f, " ") }
	kind := ""
	switch r.Intn(20) {
	case 19:
		// a byte-order mark in front of the file (editors write it); the truncations of such a file include the mark alone
		kind = "bom-prefixed"
		out[0] = "\ufeff" + out[0]
	case 16, 17:
		// lines around and beyond typical I/O buffer sizes: padding, long comments, long garbage
		kind = "long-line"
		n := []int{4090, 4094, 4095, 4096, 4097, 4100, 8192, 65535, 65536, 70000}[r.Intn(10)]
		i := r.Intn(len(out) + 1)
		switch r.Intn(4) {
		case 0: // a long comment line
			out = append(out[:i], append([]string{";" + strings.Repeat("c", n)}, out[i:]...)...)
		case 1: // a long blank line
			out = append(out[:i], append([]string{strings.Repeat(" ", n)}, out[i:]...)...)
		case 2: // an existing line padded with blanks / followed by a long trailing comment
			j := r.Intn(len(out))
			if r.Bool() {
				out[j] = strings.Repeat(" ", n) + out[j]
			} else {
				out[j] = out[j] + " ;" + strings.Repeat("t", n)
			}
		default: // a long garbage line
			out = append(out[:i], append([]string{strings.Repeat("x", n)}, out[i:]...)...)
		}
	case 18:
		// non-ASCII letters, among them ones whose lower-case form has a different byte length
		kind = "unicode"
		u := []string{"\u212a", "\u212b", "\u2126", "\u1e9e", "\u0130", "\u01c5", "\ufb01", "\u00e9", "\u03bb", "\u2028", "\u212a\u212a", "\u212b\u212a\u2126"}[r.Intn(12)]
		j := r.Intn(len(out))
		switch r.Intn(4) {
		case 0:
			out[j] = u + out[j]
		case 1:
			out[j] = out[j] + u + ";"
		case 2:
			out[j] = u + ";" + out[j]
		default:
			pos := r.Intn(len(out[j]) + 1)
			out[j] = out[j][:pos] + u + out[j][pos:]
		}
		if r.Bool() {
			out = append(out, u+u+";")
		}
	case 0:
		kind = "field-deleted"
		i := pickLine()
		f := fieldsOf(out[i])
		if len(f) > 1 {
			k := r.Intn(len(f))
			f = append(f[:k], f[k+1:]...)
		}
		out[i] = join(f)
	case 1:
		kind = "field-duplicated"
		i := pickLine()
		f := fieldsOf(out[i])
		k := r.Intn(len(f))
		f = append(f[:k+1], f[k:]...)
		out[i] = join(f)
	case 2:
		kind = "fields-transposed"
		i := pickLine()
		f := fieldsOf(out[i])
		if len(f) > 1 {
			a, b := r.Intn(len(f)), r.Intn(len(f))
			f[a], f[b] = f[b], f[a]
		}
		out[i] = join(f)
	case 3:
		kind = "number-out-of-range"
		i := pickLine()
		f := fieldsOf(out[i])
		for k := len(f) - 1; k >= 0; k-- {
			if _, ok := isNum(f[k]); ok && r.Chance(1, 2) {
				f[k] = fmt.Sprint([]int{m, m + 1, 2*m + 5, -m, -m - 1, 1 << 31, -(1 << 31)}[r.Intn(7)])
				break
			}
		}
		out[i] = join(f)
	case 4:
		kind = "number-malformed"
		i := pickLine()
		f := fieldsOf(out[i])
		for k := len(f) - 1; k >= 0; k-- {
			if _, ok := isNum(f[k]); ok && r.Chance(1, 2) {
				f[k] = badNumbers[r.Intn(len(badNumbers))]
				break
			}
		}
		out[i] = join(f)
	case 5:
		kind = "unknown-mnemonic"
		i := pickLine()
		f := fieldsOf(out[i])
		f[0] = []string{"XYZ.F", "MOV.Q", "MOV", "MOV.", ".I", "LDP.AB", "MOVE.I", "DAT.F.F", "ORGX", "ENDX"}[r.Intn(10)]
		out[i] = join(f)
	case 6:
		kind = "94-only-in-88-or-bad-mode"
		i := pickLine()
		f := fieldsOf(out[i])
		if r.Bool() && len(f) > 1 {
			k := 1
			if len(f) >= 5 && r.Bool() {
				k = 4 // the mode character of the B operand
			}
			f[k] = []string{"*", "{", "}", ">", "?", "$$", "!"}[r.Intn(7)]
		} else {
			f[0] = []string{"MUL", "DIV", "MOD", "SEQ", "SNE", "NOP", "MOV.I", "DAT.F"}[r.Intn(8)]
		}
		out[i] = join(f)
	case 7:
		// any of the four '88 modes in either operand: DAT $.., JMP #.., MOV ..,# and the like are illegal in '88
		kind = "illegal-88-combination"
		i := pickLine()
		f := fieldsOf(out[i])
		if len(f) >= 6 {
			md := []string{"#", "$", "@", "<"}[r.Intn(4)]
			if r.Bool() {
				f[1] = md
			} else {
				f[4] = md
			}
			if r.Chance(1, 3) {
				f[0] = []string{"DAT", "JMP", "MOV", "SPL", "DJN", "SLT", "CMP", "ADD"}[r.Intn(8)]
			}
		}
		out[i] = join(f)
	case 8:
		kind = "org-odd-place-or-arity"
		args := [][]string{{}, {"0"}, {"1"}, {"-1"}, {fmt.Sprint(len(il))}, {fmt.Sprint(len(il) + 1)}, {"1", "2"}, {"x"}, {"99999999999"}, {"0", "0", "0", "0"}}[r.Intn(10)]
		l := "       ORG " + strings.Join(args, " ")
		pos := r.Intn(len(out) + 1)
		out = append(out[:pos], append([]string{l}, out[pos:]...)...)
	case 9:
		kind = "end-odd-place-or-arity"
		args := [][]string{{}, {"0"}, {"-1"}, {fmt.Sprint(len(il))}, {fmt.Sprint(len(il) + 3)}, {"1", "2"}, {"x"}, {"0", "0", "0", "0"}}[r.Intn(8)]
		l := "       END " + strings.Join(args, " ")
		pos := r.Intn(len(out) + 1)
		out = append(out[:pos], append([]string{l}, out[pos:]...)...)
	case 10:
		kind = "comma-removed"
		i := pickLine()
		out[i] = strings.ReplaceAll(out[i], ",", " ")
	case 11:
		kind = "line-duplicated"
		i := r.Intn(len(out))
		out = append(out[:i+1], out[i:]...)
	case 12:
		kind = "line-deleted"
		i := r.Intn(len(out))
		out = append(out[:i], out[i+1:]...)
	case 13:
		kind = "garbage-line"
		l := []string{"hello world", "1 2 3 4 5", ", , ,", "MOV.I $ 0 , $ 1 extra", "$ MOV.I 0, $ 1", "\x00\x01", "MOV.I $ 0, $", "a b c d e", "org", "end end",
			"PIN 7", "pin 7", "pin", "Program \"x\" (length -1) by \"y\"", "Program \"x\" (length 4611686018427387904) by \"y\"", "Program \"x\" (length 3) by \"y\"",
			"START  MOV.I  $     0, $     1", "       ORG      START", "       END      START", "START", "END START START", "LDP.AB # 1, $ 2", "EQU 1", "FOR 2", "ROF", "\x1a", "\ufeffMOV.I $ 0, $ 1"}[r.Intn(27)]
		pos := r.Intn(len(out) + 1)
		out = append(out[:pos], append([]string{l}, out[pos:]...)...)
	case 14:
		kind = "metadata-short"
		l := []string{";strategy", ";name", ";author", ";strateg", ";strategyX", ";", ";redcode", ";redcode-94", ";redcode-x", ";REDCODE", ";name \"", ";author \"", ";name \"\"", ";author '", ";strategy \""}[r.Intn(15)]
		pos := r.Intn(len(out) + 1)
		out = append(out[:pos], append([]string{l}, out[pos:]...)...)
	default:
		kind = "uncorrupted"
	}
	return out, kind
}

func isNum(s string) (int, bool) {
	if s == "" {
		return 0, false
	}
	n, neg := 0, false
	for i, ch := range s {
		if i == 0 && ch == '-' {
			neg = true
			continue
		}
		if ch < '0' || ch > '9' {
			return 0, false
		}
		n = n*10 + int(ch-'0')
	}
	if neg {
		n = -n
	}
	return n, s != "-"
}

// checkLoaded applies the predicate of C10 to a successful read.
func checkLoaded(wd g.WarriorData, d asm.Dialect, m int, text string) string {
	if wd.Code == nil {
		return "success with a nil Code"
	}
	n := len(wd.Code)
	if n == 0 {
		if wd.Start != 0 {
			return fmt.Sprintf("empty code with entry point %d", wd.Start)
		}
	} else if wd.Start < 0 || wd.Start >= n {
		return fmt.Sprintf("entry point %d outside the code of %d instructions", wd.Start, n)
	}
	for i, ins := range wd.Code {
		if ins.A >= g.Address(m) || ins.B >= g.Address(m) {
			return fmt.Sprintf("instruction %d has a field >= core size %d: %v", i, m, ins)
		}
		ri, ok := fromG(ins)
		if !ok {
			return fmt.Sprintf("instruction %d has an enum outside the data model: %v", i, ins)
		}
		if d == asm.D88 {
			md, legal := asm.Legal88(ri.Op, ri.AM, ri.BM)
			if !legal {
				return fmt.Sprintf("instruction %d is not a legal ICWS'88 instruction: %s", i, insnStr(ri))
			}
			if md != ri.Mod {
				return fmt.Sprintf("instruction %d carries modifier %s, ICWS'88 implies %s: %s", i, mars.ModNames[ri.Mod], mars.ModNames[md], insnStr(ri))
			}
		}
	}
	acc := asm.AccountLoadFile(text)
	if acc.InstrShaped != n {
		return fmt.Sprintf("conservation: %d instruction-shaped lines before the end marker (of %d lines, %d directives, %d blank/comment), but %d instructions were read — a line was skipped silently or invented", acc.InstrShaped, acc.Lines, acc.Directives, acc.Blank, n)
	}
	return ""
}

func runC10(c *Ctx) {
	defer withDisturb(c)()
	runPinned(c, "C10")
	n := int64(120000)
	if c.Thorough() {
		n = 6000000
	}
	c.Cases(n, func(idx int64, r *Rng) {
		d := asm.D94
		if idx%2 == 1 {
			d = asm.D88
		}
		m := []int{3, 7, 80, 8000}[r.Intn(4)]
		maxLen := []int{1, 3, 8}[r.Intn(3)]
		if maxLen > m {
			maxLen = m
		}
		cfg := asm.Config{Dialect: d, CoreSize: m, Length: 100, Processes: 8}
		if cfg.Length > m {
			cfg.Length = m
		}
		gc := gcfg(cfg, g.ICWS94)
		code, start := genWarrior(r, idx, d, m, maxLen)
		lines := asm.PrintLoadFile(code, start, d, m, r.Intn(4), r)
		lines, kind := corrupt(lines, d, m, r)
		if r.Chance(1, 4) {
			var k2 string
			lines, k2 = corrupt(lines, d, m, r)
			kind += "+" + k2
		}
		set := 0
		if r.Chance(1, 3) {
			set = r.Intn(1 << asm.NumPerturbations)
		}
		text := asm.Perturb(lines, set, d, r)
		var texts []string
		if idx%4001 == 4000 {
			// a load file of more than 1 MiB (up to ~5 MiB): every line must still be accounted for
			body := strings.Join(asm.PrintLoadFile(code, start, d, m, 0, r), "\n") + "\n"
			lines := strings.Split(strings.TrimRight(body, "\n"), "\n")
			var instr []string
			for _, l := range lines {
				t := strings.ToUpper(strings.TrimSpace(l))
				if !strings.HasPrefix(t, "ORG") && !strings.HasPrefix(t, "END") {
					instr = append(instr, l)
				}
			}
			var b strings.Builder
			if d == asm.D94 {
				b.WriteString("       ORG      0\n")
			}
			want := (1<<20)/len(instr[0]) + r.Range(10, 4*(1<<20)/len(instr[0]))
			for i := 0; i < want; i++ {
				b.WriteString(instr[i%len(instr)])
				b.WriteByte('\n')
			}
			b.WriteString("       END\n")
			texts = []string{b.String()}
			kind = "bigger-than-1MiB"
			c.Inc("inputs_above_1MiB")
		} else if r.Chance(1, 4) && len(text) <= 1500 {
			// truncation at EVERY byte of this file
			for k := 0; k <= len(text); k++ {
				texts = append(texts, text[:k])
			}
			kind += "+all-truncations"
			c.Count("truncation_offsets_covered", int64(len(text)+1))
		} else if r.Chance(1, 4) {
			// a big file: a sample of truncation offsets, those around multiples of 4096 included
			for n := 0; n < 12; n++ {
				k := r.Intn(len(text) + 1)
				if n < 6 && len(text) > 4096 {
					k = min(len(text), (1+r.Intn(len(text)/4096))*4096+r.Intn(5)-2)
				}
				texts = append(texts, text[:k])
			}
			kind += "+sampled-truncations"
		} else if r.Chance(1, 3) {
			texts = []string{text[:r.Intn(len(text)+1)]}
			kind += "+truncated"
		} else {
			texts = []string{text}
		}
		for _, t := range texts {
			c.Inc("texts")
			var wd g.WarriorData
			var err error
			var pm string
			wd, err, pm = loadFile(t, gc)
			cs := func() interface{} {
				return map[string]interface{}{"config": gc, "text": t, "corruption": kind}
			}
			if pm != "" {
				c.Violate("C10:panic:"+panicSite(pm), pm, cs())
				return
			}
			if err != nil {
				c.Inc("rejected")
				if wd.Code != nil || wd.Start != 0 || wd.Name != "" {
					c.Violate("C10:error-with-result", "an error was returned together with a non-empty warrior", cs())
					return
				}
				c.Set("outcomes", fmt.Sprintf("%d|%s|rejected", d, kind))
				continue
			}
			c.Inc("accepted")
			if dd := checkLoaded(wd, d, m, t); dd != "" {
				c.Violate("C10:"+strings.Fields(dd)[0], dd, cs())
				return
			}
			c.Set("outcomes", fmt.Sprintf("%d|%s|accepted", d, kind))
			if !strings.HasPrefix(kind, "uncorrupted") || strings.Contains(kind, "trunc") {
				c.Nontrivial(fmt.Sprintf("%d|%s|accepted|%d", d, kind, len(wd.Code)))
				c.Inc("accepted_corrupted")
			}
		}
		if idx%1999 == 1 {
			c.Sample(map[string]interface{}{"config": gc, "text": texts[len(texts)-1], "corruption": kind})
		}
	})
}
