package main

import (
	"fmt"
	"strings"

	g "github.com/bobertlo/gmars"

	"verif/ref/asm"
	"verif/ref/mars"
)

// gcfg converts the assembler-side configuration to gmars'.
func gcfg(c asm.Config, mode94 g.SimulatorMode) g.SimulatorConfig {
	mode := mode94
	if c.Dialect == asm.D88 {
		mode = g.ICWS88
	}
	return g.SimulatorConfig{Mode: mode, CoreSize: g.Address(c.CoreSize), Processes: g.Address(c.Processes), Cycles: 1000,
		ReadLimit: g.Address(c.CoreSize), WriteLimit: g.Address(c.CoreSize), Length: g.Address(c.Length), Distance: g.Address(c.Distance)}
}

// compile calls the real assembler, converting a panic into a message.
func compile(text string, cfg g.SimulatorConfig) (wd g.WarriorData, err error, panicMsg string) {
	disturb(text, cfg)
	rd, done := deliver(text)
	defer done()
	_, panicMsg = try(func() { wd, err = g.CompileWarrior(rd, cfg) })
	return
}

func loadFile(text string, cfg g.SimulatorConfig) (wd g.WarriorData, err error, panicMsg string) {
	disturb(text, cfg)
	rd, done := deliver(text)
	defer done()
	_, panicMsg = try(func() { wd, err = g.ParseLoadFile(rd, cfg) })
	return
}

// diffCode compares assembled code with the expected instruction list.
func diffCode(got []g.Instruction, want []mars.Insn) string {
	if len(got) != len(want) {
		return fmt.Sprintf("length: gmars %d instructions, expected %d", len(got), len(want))
	}
	for i := range got {
		gi, ok := fromG(got[i])
		if !ok || gi != want[i] {
			return fmt.Sprintf("instruction %d: gmars %v, expected %s", i, got[i], insnStr(want[i]))
		}
	}
	return ""
}

// codeClass names the first differing aspect (for signatures)
func diffClass(d string) string {
	if i := strings.Index(d, ":"); i > 0 {
		return strings.Fields(d[:i])[0]
	}
	return "diff"
}

var coreSizes = []int{3, 5, 7, 8, 13, 16, 55, 80, 100, 256, 800, 8000, 8192, 55440, 1 << 20, 1 << 34}

func randAsmConfig(r *Rng, d asm.Dialect) asm.Config {
	if r.Chance(1, 12) {
		// tiny cores whose maximum length is the whole core
		m := []int{3, 4, 5, 7, 8}[r.Intn(5)]
		return asm.Config{Dialect: d, CoreSize: m, Length: m, Processes: 8, Distance: 0}
	}
	m := coreSizes[r.Intn(len(coreSizes))]
	if r.Chance(1, 2) {
		m = []int{8000, 80, 800, 8192}[r.Intn(4)]
	}
	l := []int{1, 5, 20, 100, 300}[r.Intn(5)]
	if l > m {
		l = m
	}
	dist := r.Intn(m - l + 1)
	if dist > 1000 {
		dist = 100
	}
	return asm.Config{Dialect: d, CoreSize: m, Length: l, Processes: []int{1, 8, 8000}[r.Intn(3)], Distance: dist}
}

func randStyle(r *Rng, renameFrom []string) *asm.Style {
	s := &asm.Style{R: r, Case: r.Intn(3), Spacing: r.Intn(3), ColonPct: []int{0, 30, 100}[r.Intn(3)], OwnLinePct: []int{0, 30, 100}[r.Intn(3)],
		BlankPct: []int{0, 20}[r.Intn(2)], CommentPct: []int{0, 20}[r.Intn(2)], TrailPct: []int{0, 30}[r.Intn(2)], ExplicitModePct: []int{0, 50}[r.Intn(2)],
		FloatEqus: r.Bool(), WithEnd: r.Bool(), Header: r.Bool()}
	if r.Chance(1, 3) && len(renameFrom) > 0 {
		s.Rename = map[string]string{}
		for i, n := range renameFrom {
			s.Rename[n] = fmt.Sprintf("%s%d_%c", []string{"r", "Lbl", "_n", "zq"}[r.Intn(4)], i, 'a'+byte(r.Intn(26)))
		}
	}
	if r.Chance(1, 6) {
		s.NoFinalNewline = true
	}
	if r.Chance(1, 4) {
		s.ScatterDirectives = true
	}
	if r.Chance(1, 10) {
		s.LongCommentPct = 30
		s.CommentPct, s.TrailPct = 20, 30
	}
	if r.Chance(1, 8) {
		// anything may follow the END line: prose, code, characters and lone operators the lexer has no token for
		s.AfterEnd = []string{"this text is ignored", "mov 1, 2\n dat 0", "; comment after end", "\n\n", "score = 142", "a | b & c = d", "100% done! ~ ` \\ \x01\x7f",
			"x equ y\n i for 3\n dat i", "rof\nrof\nend 7", "dat 1/0\nmov 1,", "\u00e9t\u00e9 \ufffd \x1a"}[r.Intn(11)]
		s.WithEnd = true
	}
	return s
}

// progNames collects labels, EQU names and counters of a program (for alpha-renaming).
func progNames(p *asm.Prog) []string {
	var out []string
	seen := map[string]bool{}
	add := func(n string) {
		if n != "" && !seen[n] {
			seen[n] = true
			out = append(out, n)
		}
	}
	var walk func(items []asm.Item)
	walk = func(items []asm.Item) {
		for _, it := range items {
			switch x := it.(type) {
			case *asm.Instr:
				for _, l := range x.Labels {
					add(l)
				}
			case *asm.Equ:
				add(x.Name)
			case *asm.For:
				for _, l := range x.Labels {
					add(l)
				}
				add(x.Counter)
				walk(x.Body)
			}
		}
	}
	walk(p.Items)
	for _, l := range p.EndLabels {
		add(l)
	}
	return out
}

type asmCase struct {
	Config  g.SimulatorConfig
	Text    string
	Want    []string `json:"want,omitempty"`
	Start   int      `json:"want_start"`
	Comment string   `json:"note,omitempty"`
}

func mkAsmCase(cfg g.SimulatorConfig, text string, mn *asm.Meaning, note string) *asmCase {
	c := &asmCase{Config: cfg, Text: text, Comment: note}
	if mn != nil {
		c.Want = coreStr(mn.Code)
		c.Start = mn.Start
	}
	return c
}
