//go:build verif

package main

import g "github.com/bobertlo/gmars"

// hookAvailable: the worker was built with the verif tag, so /repo/verif_hooks.go is part of gmars.
const hookAvailable = true

func verifInvariants(s g.Simulator) []string { return g.VerifInvariants(s) }
