package main

import (
	"fmt"
	"os"
	"path/filepath"
	"strings"
	"sync"

	g "github.com/bobertlo/gmars"

	"verif/ref/mars"
)

// long battles of the repository's own warriors on full-size cores: they reach
// thousands of processes (ring-buffer wrap-around at the process limit) and
// tens of thousands of cycles, which the tiny hostile battles never do.

var (
	repoWarriorsOnce sync.Once
	repoWarriors     []mars.WarriorCode
	repoWarriorNames []string
)

func loadRepoWarriors() {
	repoWarriorsOnce.Do(func() {
		dir := os.Getenv("VERIF_REPO_DIR")
		if dir == "" {
			dir = "/repo"
		}
		files, _ := filepath.Glob(filepath.Join(dir, "warriors/94/*.red"))
		for _, f := range files {
			b, err := os.ReadFile(f)
			if err != nil {
				continue
			}
			wd, err, pm := compile(string(b), g.ConfigNOP94)
			if err != nil || pm != "" || len(wd.Code) == 0 {
				continue
			}
			var code []mars.Insn
			ok := true
			for _, ins := range wd.Code {
				ri, k := fromG(ins)
				ok = ok && k
				code = append(code, ri)
			}
			if ok {
				repoWarriors = append(repoWarriors, mars.WarriorCode{Code: code, Start: wd.Start})
				repoWarriorNames = append(repoWarriorNames, filepath.Base(f))
			}
		}
		// a splitter that fills any process queue, and a slow dier
		repoWarriors = append(repoWarriors, mars.WarriorCode{Code: []mars.Insn{{Op: mars.SPL, Mod: mars.MB, AM: mars.DIR, BM: mars.DIR}, {Op: mars.MOV, Mod: mars.MI, AM: mars.DIR, BM: mars.DIR, A: 0, B: 1}}})
		repoWarriorNames = append(repoWarriorNames, "spl-imp")
	})
}

func runLongBattle(c *Ctx, idx int64, r *Rng) {
	loadRepoWarriors()
	if len(repoWarriors) < 2 {
		return
	}
	bc := &BattleCase{M: 8000, P: []int{8000, 8000, 64, 7}[r.Intn(4)], C: []int{3000, 20000, 80000}[r.Intn(3)], R: 8000, W: 8000}
	nw := 2
	if r.Chance(1, 4) {
		nw = 3
	}
	var names []string
	for i := 0; i < nw; i++ {
		k := r.Intn(len(repoWarriors))
		names = append(names, repoWarriorNames[k])
		off := 0
		if i > 0 {
			off = r.Range(100, bc.M-101)
		}
		bc.Warriors = append(bc.Warriors, &BWarrior{Code: repoWarriors[k].Code, Start: repoWarriors[k].Start, Off: off})
	}
	desc := map[string]interface{}{"kind": "long battle of repository warriors", "warriors": names, "offsets": []int{bc.Warriors[0].Off, bc.Warriors[1].Off}, "M": bc.M, "P": bc.P, "C": bc.C}
	rec := &popRecorder{}
	s, ws, err := bc.newReal(0, rec)
	if err != nil {
		c.Violate("C02:long:setup", err.Error(), desc)
		return
	}
	ref := bc.newRef(0)
	var cyc []mars.TaskTrace
	ref.Trace = func(t mars.TaskTrace) { cyc = append(cyc, t) }
	cycles := 0
	maxq := 0
	for !ref.Decided() {
		cyc = cyc[:0]
		rec.pops = rec.pops[:0]
		ref.RunCycle()
		var ret int
		if p, msg := try(func() { ret = s.RunCycle() }); p {
			c.Violate("C02:long:panic:"+panicSite(msg), msg, desc)
			return
		}
		cycles++
		if len(rec.pops) != len(cyc) || ret != ref.Living {
			c.Violate("C02:long:trace", fmt.Sprintf("cycle %d: gmars executed %d tasks and returned %d, reference %d tasks, %d living", cycles, len(rec.pops), ret, len(cyc), ref.Living), desc)
			return
		}
		for k, t := range cyc {
			if rec.pops[k] != [2]int{t.Warrior, t.PC} {
				c.Violate("C02:long:trace", fmt.Sprintf("cycle %d task %d: gmars executed warrior %d at %d, reference warrior %d at %d", cycles, k, rec.pops[k][0], rec.pops[k][1], t.Warrior, t.PC), desc)
				return
			}
			if t.Dropped > 0 {
				c.Inc("long_pushes_dropped_at_limit")
			}
		}
		for _, w := range ref.W {
			if len(w.Queue) > maxq {
				maxq = len(w.Queue)
			}
		}
		if cycles%997 == 0 {
			if ok, d := compareBattle(s, ws, ref, 0); !ok {
				c.Violate("C02:long:state:"+strings.SplitN(d, ":", 2)[0], fmt.Sprintf("after cycle %d: %s", cycles, d), desc)
				return
			}
		}
	}
	if ok, d := compareBattle(s, ws, ref, 0); !ok {
		c.Violate("C02:long:state:"+strings.SplitN(d, ":", 2)[0], fmt.Sprintf("final state after %d cycles: %s", cycles, d), desc)
		return
	}
	if inv := verifInvariants(s); len(inv) > 0 {
		c.Violate("C02:long:invariant", fmt.Sprint(inv), desc)
		return
	}
	c.Inc("long_battles")
	c.Count("long_battle_cycles", int64(cycles))
	c.Max("max_queue_length_seen", int64(maxq))
	if maxq >= bc.P {
		c.Inc("long_battles_reaching_process_limit")
	}
	c.Nontrivial(fmt.Sprintf("long|%v|P%d|C%d", names, bc.P, bc.C))
}
