#!/usr/bin/env python3
"""resolve conflict markers left by `git apply --3way` in the given files in favour of the patch ("theirs")"""
import sys, re
for f in sys.argv[1:]:
    try:
        s = open(f).read()
    except Exception:
        continue
    if '<<<<<<< ' not in s:
        continue
    out, mode = [], None
    for line in s.split('\n'):
        if line.startswith('<<<<<<< '):
            mode = 'ours'
        elif line.startswith('=======') and mode == 'ours':
            mode = 'theirs'
        elif line.startswith('>>>>>>> ') and mode == 'theirs':
            mode = None
        elif mode == 'ours':
            pass
        else:
            out.append(line)
    open(f, 'w').write('\n'.join(out))
