#!/usr/bin/env python3
import json, sys, glob, jsonschema
m = json.load(open('/verif/MANIFEST.json'))
jsonschema.validate(m, json.load(open('/root/.vp/MANIFEST.schema.json')))
es = json.load(open('/root/.vp/EVIDENCE.schema.json'))
for c in m['checks']:
    try:
        jsonschema.validate(json.load(open(c['evidence_file'])), es)
    except Exception as e:
        print('EVIDENCE INVALID', c['property_id'], str(e)[:200])
print('validated manifest +', len(m['checks']), 'evidence files')
