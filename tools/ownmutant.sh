#!/bin/bash
# usage: tools/ownmutant.sh <name> <check-id> <file> <python-regex-old> <new>
# makes a one-line mutant of /repo in a scratch worktree, checks that it compiles and passes the suite,
# stores the patch under selftest/mutants/<name>.diff and runs the quick check against it.
set -u
export GOFLAGS=-mod=mod GOPROXY=off GOSUMDB=off GOTOOLCHAIN=local
name=$1; chk=$2; file=$3; old=$4; new=$5
WT=$(mktemp -d /tmp/own-XXXXXX); rmdir $WT
git -C /repo worktree add -q --detach $WT HEAD || exit 2
trap 'git -C /repo worktree remove --force $WT 2>/dev/null; rm -rf $WT' EXIT
python3 - "$WT/$file" "$old" "$new" <<'PY' || { echo "MUTANT $name: pattern not found"; exit 2; }
import sys,re
p,old,new=sys.argv[1:4]
s=open(p).read()
n=len(re.findall(old,s))
if n<1: sys.exit(1)
s=re.sub(old,new,s,count=1)
open(p,'w').write(s)
PY
cd $WT
go build . ./cmd/gmars >/dev/null 2>&1 || { echo "MUTANT $name: does not compile"; exit 2; }
go test -vet=off -count=1 . >/dev/null 2>&1; suite=$?
git diff > /verif/selftest/mutants/$name.diff
cd /verif
out=$(VERIF_REPO=$WT ./check.sh $chk quick 2>&1); rc=$?
echo "MUTANT $name check=$chk suite_passes=$([ $suite -eq 0 ] && echo yes || echo NO) exit=$rc $(echo "$out" | grep -m2 'sig=' | tr '\n' ' ')"
