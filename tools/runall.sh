#!/bin/bash
# usage: tools/runall.sh [quick|thorough] [ids...]   runs the checks against /repo and prints one line each
cd "$(dirname "$0")/.."
tier=${1:-quick}; shift
ids="$*"; [ -z "$ids" ] && ids="C01 C02 C03 C04 C05 C06 C07 C08 C09 C10 C11 C12 C13 C14 C15 C16 C17"
rc=0
for p in $ids; do
  out=$(./check.sh $p $tier 2>&1); e=$?
  echo "$p exit=$e $(echo "$out" | head -1 | cut -d: -f2-) $(echo "$out" | grep -c '^KNOWN-FINDING') known $(echo "$out" | grep -c '^VIOLATION') violations $(echo "$out" | grep -c '^INCONCLUSIVE') inconclusive"
  [ $e -ne 0 ] && { rc=1; echo "$out" | grep -A2 "^VIOLATION\|^INCONCLUSIVE\|^HARNESS\|^BUILD" | head -12; }
done
exit $rc
