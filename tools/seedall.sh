#!/bin/bash
# runs tools/seedtest.sh over every directory in /verif/seeded (optionally: only those matching $1) and
# writes the catch matrix to seeded/RESULTS.txt
cd "$(dirname "$0")/.."
out=seeded/RESULTS.txt
[ -n "${1:-}" ] || : > $out
for d in seeded/C*/; do
  case "$d" in *"${1:-}"*) ;; *) continue;; esac
  tools/seedtest.sh "$d" 2>&1 | grep -v "^    demo" | tee -a $out
done
