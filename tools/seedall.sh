#!/bin/bash
# runs tools/seedtest.sh over every directory in /verif/seeded (optionally: only those matching $1) and
# writes the catch matrix to seeded/RESULTS.txt.  PAR=<n> runs n seeded changes at a time (default 1).
cd "$(dirname "$0")/.."
out=seeded/RESULTS.txt
[ -n "${1:-}" ] || : > $out
tmp=$(mktemp -d /tmp/seedall-XXXXXX)
ls -d seeded/C*/ | { [ -n "${1:-}" ] && grep -- "$1" || cat; } > $tmp/list
cat $tmp/list | xargs -P "${PAR:-1}" -I{} sh -c 'tools/seedtest.sh "$1" 2>&1 | grep -v "^    demo" > "$2/$(basename "$1").out"' _ {} $tmp
for d in $(cat $tmp/list); do cat "$tmp/$(basename $d).out"; done | tee -a $out
rm -rf $tmp
