#!/bin/bash
# usage: tools/seedtest.sh <seed-dir> [check ids...]
# <seed-dir> holds patch.diff (+ demo_test.go or demo.sh, meta.json).
# 1. confirms the seeded change in a scratch worktree: compiles, the repository's suite passes,
#    the demonstration fails with the change and passes without;
# 2. runs the given quick checks (default: the property named in meta.json) against the scratch
#    copy (VERIF_REPO) and prints which of them report a violation.
# The scratch worktree is removed afterwards.  /repo itself is never modified.
set -u
export GOFLAGS=-mod=mod GOPROXY=off GOSUMDB=off GOTOOLCHAIN=local
VERIF_HOME=$(cd "$(dirname "$0")/.." && pwd)
SEED=$(cd "$1" && pwd); shift
PROP=$(python3 -c "import json,sys;print(json.load(open('$SEED/meta.json'))['property'])" 2>/dev/null || echo "")
CHECKS="$*"; [ -z "$CHECKS" ] && CHECKS="$PROP"
WT=$(mktemp -d /tmp/mut-XXXXXX); rmdir "$WT"
git -C /repo worktree add -q --detach "$WT" HEAD || exit 2
cleanup() { git -C /repo worktree remove --force "$WT" 2>/dev/null; rm -rf "$WT"; }
trap cleanup EXIT
cd "$WT"
demo() { # returns 0 when the demonstration passes
  if [ -f "$SEED/demo_test.go" ]; then
    cp "$SEED/demo_test.go" "$WT/zz_seeded_demo_test.go"
    go test -vet=off -count=1 -run 'TestSeededDemo' . >/tmp/seedtest-demo.$$ 2>&1; rc=$?
    rm -f "$WT/zz_seeded_demo_test.go"; return $rc
  elif [ -f "$SEED/demo.sh" ]; then
    (cd "$WT" && bash "$SEED/demo.sh" "$WT") >/tmp/seedtest-demo.$$ 2>&1; return $?
  fi
  return 2
}
demo; BASE=$?
ONBASE=""
if ! git apply "$SEED/patch.diff" 2>/dev/null; then
  # later repairs touched the same lines: try a three-way merge onto HEAD first
  if git apply --3way "$SEED/patch.diff" >/dev/null 2>&1 && ! grep -q '^<<<<<<<' *.go cmd/gmars/main.go 2>/dev/null && go build . ./cmd/gmars >/dev/null 2>&1 && go test -vet=off -count=1 . >/dev/null 2>&1 && ! demo; then
    git reset -q
    echo "  (patch merged three-way onto /repo HEAD)"
  elif git reset -q --hard && git clean -fdq && { git apply --3way "$SEED/patch.diff" >/dev/null 2>&1; python3 "$VERIF_HOME/tools/resolve_theirs.py" *.go cmd/gmars/main.go; gofmt -l . >/dev/null 2>&1; go build . ./cmd/gmars >/dev/null 2>&1 && go test -vet=off -count=1 . >/dev/null 2>&1 && ! demo; }; then
    git reset -q
    echo "  (patch merged three-way onto /repo HEAD; conflicting hunks taken from the seeded change)"
  else
    git reset -q --hard; git clean -fdq
    # the patch was made against an older /repo commit (recorded in $SEED/base): test it there.  That tree still has
    # the defects repaired since, which the checks report too: the signatures of the UNPATCHED base are printed as a
    # baseline and only signatures beyond them count for the seeded change
    BASECOMMIT=$(cat "$SEED/base" 2>/dev/null)
    [ -n "$BASECOMMIT" ] || { echo "SEED $SEED: patch does not apply"; exit 2; }
    git checkout -q --detach "$BASECOMMIT" || { echo "SEED $SEED: base $BASECOMMIT missing"; exit 2; }
    ONBASE=$BASECOMMIT
    export VERIF_LEGACY=1 # strata that expose defects repaired after this commit are switched off
    for c in $CHECKS; do
      out=$(cd "$VERIF_HOME" && VERIF_REPO="$WT" ./check.sh $c quick 2>&1)
      echo "  baseline $c on $BASECOMMIT: $(echo "$out" | grep "sig=" | sed 's/^ *//' | sort -u | tr '\n' ' ')"
    done
    git apply "$SEED/patch.diff" || { echo "SEED $SEED: patch does not apply to its base $BASECOMMIT either"; exit 2; }
    echo "  (patch no longer applies to /repo HEAD; tested on its base commit $BASECOMMIT)"
  fi
fi
go build . ./cmd/gmars >/dev/null 2>&1 || { echo "SEED $SEED: does not compile"; exit 2; }
go test -vet=off -count=1 . >/tmp/seedtest-suite.$$ 2>&1; SUITE=$?
demo; MUT=$?
echo "SEED $(basename $(dirname $SEED))/$(basename $SEED) property=$PROP demo_without_patch=$BASE(0=pass) suite_with_patch=$SUITE(0=pass) demo_with_patch=$MUT(nonzero=fails)"
[ $MUT -ne 0 ] && tail -5 /tmp/seedtest-demo.$$ | sed 's/^/    demo: /'
rm -f /tmp/seedtest-demo.$$ /tmp/seedtest-suite.$$
cd "$VERIF_HOME"
for c in $CHECKS; do
  out=$(VERIF_REPO="$WT" ./check.sh $c quick 2>&1); rc=$?
  sig=$(echo "$out" | grep -m3 "sig=" | tr '\n' ' ')
  [ -n "$ONBASE" ] && sig=$(echo "$out" | grep "sig=" | sed 's/^ *//' | sort -u | tr '\n' ' ')
  echo "  check $c exit=$rc $(echo "$out" | grep -c '^VIOLATION') violation line(s) $sig"
done
