#!/bin/bash
# applies every seeded/refactor-<n>/patch.diff (behaviour-preserving rewrites made by sub-agents) to a scratch
# worktree of /repo and runs all quick checks against it: everything must stay silent (known findings may be
# printed).  The patch is applied to HEAD (three-way when later repairs touched the same lines, conflicting hunks taken
# from the refactoring - accepted only if the 56 tests pass); otherwise to the commit recorded in `base`, with the
# strata tied to later repairs switched off (VERIF_LEGACY=1).
cd "$(dirname "$0")/.."
export GOFLAGS=-mod=mod GOPROXY=off GOSUMDB=off GOTOOLCHAIN=local
for d in seeded/refactor-*/; do
  WT=$(mktemp -d /tmp/ref-XXXXXX); rmdir "$WT"
  git -C /repo worktree add -q --detach "$WT" HEAD || exit 2
  unset VERIF_LEGACY
  if git -C "$WT" apply "$PWD/$d/patch.diff" 2>/dev/null; then
    echo "== $d (on HEAD)"
  elif (cd "$WT" && git apply --3way "$OLDPWD/$d/patch.diff" >/dev/null 2>&1; python3 "$OLDPWD/tools/resolve_theirs.py" *.go cmd/gmars/main.go; go build . ./cmd/gmars >/dev/null 2>&1 && go test -vet=off -count=1 . >/dev/null 2>&1); then
    echo "== $d (merged three-way onto HEAD)"
  else
    git -C "$WT" reset -q --hard; git -C "$WT" clean -fdq
    b=$(cat "$d/base" 2>/dev/null)
    git -C "$WT" checkout -q --detach "$b" && git -C "$WT" apply "$PWD/$d/patch.diff" || { echo "$d: patch does not apply"; git -C /repo worktree remove --force "$WT"; continue; }
    export VERIF_LEGACY=1
    echo "== $d (on its base commit $b, strata tied to later repairs off)"
  fi
  tools/refactortest.sh "$WT"
  git -C /repo worktree remove --force "$WT"; rm -rf "$WT"
done
