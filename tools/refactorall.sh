#!/bin/bash
# applies every seeded/refactor-<n>/patch.diff (behaviour-preserving rewrites made by sub-agents) to a scratch
# worktree of /repo (at the commit recorded in `base`, or HEAD when the patch still applies) and runs all
# quick checks against it: everything must stay silent (known findings may be printed).
cd "$(dirname "$0")/.."
for d in seeded/refactor-*/; do
  WT=$(mktemp -d /tmp/ref-XXXXXX); rmdir "$WT"
  git -C /repo worktree add -q --detach "$WT" HEAD || exit 2
  if ! git -C "$WT" apply "$PWD/$d/patch.diff" 2>/dev/null; then
    b=$(cat "$d/base" 2>/dev/null)
    git -C "$WT" checkout -q --detach "$b" && git -C "$WT" apply "$PWD/$d/patch.diff" || { echo "$d: patch does not apply"; git -C /repo worktree remove --force "$WT"; continue; }
    echo "== $d (on its base commit $b)"
  else
    echo "== $d (on HEAD)"
  fi
  tools/refactortest.sh "$WT"
  git -C /repo worktree remove --force "$WT"; rm -rf "$WT"
done
