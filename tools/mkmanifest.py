#!/usr/bin/env python3
"""Regenerates /verif/MANIFEST.json from the table below (kept in one place so it is always valid)."""
import json, os, subprocess
HERE = os.path.dirname(os.path.dirname(os.path.abspath(__file__)))

# id -> (technique, level text, level note, design ref)
CHECKS = {
 "C01": ("lock-step shadow monitor: real simulator vs reference ICWS'94 step (EMI94 transliteration) after every cycle, plus internal-invariant hook",
         "Runtime monitoring. A boundary grid (every one of the 7616 forms x A,B in {0,1,2,M-1} x six limit classes) is walked completely, cores above 2^16 and pointer sums aimed at the discontinuities of Fold are covered by dedicated strata, and every form is executed at the PC many more times under independent random read/write limits and boundary-biased fields, also on simulators that were Reset before and next to bystander simulators; after every step the monitor compares the whole core and the whole process queue with an independently written reference interpreter. Holds only for the executions produced (counts in the evidence file).",
         "Trusted: the reference interpreter in ref/mars (written from the ICWS'94 draft), the Go toolchain. M up to 3*10^6 cells (a few such cases per run; most cores are tiny so that everything collides).", "3/C01"),
 "C02": ("lock-step shadow of whole battles through a Reporter (executed PCs) plus API snapshots after every cycle; relational monitor Run() vs RunCycle loop on two real simulators",
         "Runtime monitoring of whole battles (1-4 hostile warriors on tiny cores so that they collide, die, hit the process and cycle limits; long battles of the repository's warriors on a core of 8000 reaching 8000 processes; cycle limits up to 2^64-1) against a reference scheduler after every cycle, and of Run() against cycle-by-cycle driving. Decides the property on the battles produced; evidence counts the scheduling events actually seen (multi-warrior deaths, mid-cycle decisions, dropped pushes, cycle-limit ties).",
         "Trusted: reference scheduler ref/mars/battle.go. Assumption recorded: the cycle in which a multi-warrior battle is decided is not counted.", "3/C02"),
 "C04": ("invariant monitor (API-level predicates + internal-state hook VerifInvariants) evaluated after every cycle of battles of random instruction values; configuration fuzz of NewSimulator",
         "Runtime monitoring: every configuration field is fuzzed over 0..2^20; creation must fail xor succeed without panic, and every accepted configuration (including limits larger than the core, which Validate lets through) is used for a battle of uniformly random code whose invariants are asserted after each cycle, both through the API and through a hook that walks the ring buffers and counters.",
         "Trusted: the hook file verif_hooks.go (read-only). Large cores (>4096) are scanned fully only at the start and end of a battle.", "3/C04"),
 "C11": ("locality monitor on before/after diffs + non-interference twin executions (two real simulators whose cores differ only outside the limit window) + limit-free reference step for R=W=M",
         "Runtime monitoring that makes reads observable without a hook: besides checking that every changed cell and every non-sequential successor lies within the configured distance, each step is re-executed on a twin core that differs only beyond the limits (every such cell on big cores); any difference in result proves a cell beyond the limits was used. R=W=M steps are compared with a reference that has folding removed.",
         "Window of the twin is max(R/2,W/2) because the draft legitimately reads through the write-folded pointer. Trusted: ref/mars step for clause (c) only; clauses (a),(b) use real executions only.", "3/C11"),
 "C12": ("relational (metamorphic) monitor over pairs/triples of real simulators: run(shift k) vs rotate_k(run(shift 0)), offsets k, k+M, k+2M",
         "Runtime monitoring with no reference model: the same battle is run at shifted placements (including wrapping code, wrapping entry points, offsets >= M and offsets just below 2^63 and 2^64) and survivors, cycle count, rotated queues and rotated core must coincide.",
         "Only real executions are compared; nothing else is trusted beyond the Go toolchain.", "3/C12"),
 "C13": ("lock-step API state-machine monitor: every call's return value and the complete observable state compared with a reference model after every call; all call sequences to depth 3/4 walked as a workload plus random histories; CPU-time progress monitor around Run(); relational reset-vs-fresh check",
         "Runtime monitoring of call histories: exhaustive walk of the call alphabet to a small depth (as a workload) and tens of thousands of random histories biased toward calls that cannot apply; a panic, a hang (decided by CPU time consumed, not wall clock) or any observable difference from the reference state machine is a violation. A reset-and-respawned simulator is compared call by call with a fresh one.",
         "Trusted: reference state machine ref/mars/battle.go (its reading of 'cannot apply' is spelled out in the evidence assumptions).", "3/C13"),
 "C15": ("report-stream monitor (my own Reporter cutting the stream into tasks, core snapshots at every TaskPop) checked against the reference event stream; StateRecorder compared with two independent folds after every cycle",
         "Runtime monitoring of the reporting hooks: per task, changed cells must be a subset of reported cells which must be a subset of the cells the reference semantics may touch; TaskPop must arrive before any effect and name the reference PC; terminate reports must coincide with deaths; the bundled StateRecorder must equal the last-toucher fold of both the real stream and the reference event stream, and be empty after Reset.",
         "Trusted: ref/mars step events. The order of reports within a task and read reports are not checked.", "3/C15"),
 "C03": ("translation check by construction: abstract programs -> independent meaning (own evaluator, label/EQU tables, dialect default tables) vs real CompileWarrior on >= 3 random surface renderings of each program",
         "Runtime monitoring of the assembler: thousands of abstract programs are each rendered several ways (case, spacing, comments, colons, own-line labels, alpha-renaming, EQU placement, missing final newline, text after END) and every rendering must assemble to the by-construction meaning (code, entry point, metadata), hence all renderings agree with each other.",
         "Trusted: ref/asm meaning (conventions listed in DESIGN.md section 2). Values beyond 32 bits, name collisions with mnemonics and labels inside FOR bodies are outside the generated domain.", "3/C03"),
 "C05": ("process-level monitors around every CompileWarrior call on a hostile corpus: panic recovery, error-xor-warrior contract, goroutine-leak monitor (goroutine profile), CPU-time progress monitor with deadlock examination, RSS sampling; -race pass in thorough",
         "Runtime monitoring of termination and cleanliness: fixed hostile programs plus mutated programs, repository warriors and token soup; a call that burns its CPU budget, blocks forever, panics, returns both or neither of (error, warrior), or leaves a goroutine blocked in a channel operation is a violation. 'Time proportional to size' is decided as 'below a fixed generous CPU budget'.",
         "An unbounded 'eventually' is not decidable by a finite run; FOR/EQU blow-up (documented semantics) is kept out of the workload by an expansion estimate.", "3/C05"),
 "C06": ("predicate monitor on every successful CompileWarrior result over near-valid mutations and the hostile corpus; independent ICWS'88 legality table",
         "Runtime monitoring: whatever the assembler accepts is checked against the structural predicate and, in ICWS88 mode, against an independently written table of legal '88 instructions with implied modifiers. Workload concentrates on the boundaries (entry point at len-1/len, length at max/max+1, '94-only modes and opcodes under '88).",
         "Trusted: the '88 table in ref/asm/prog.go (written from the standard; SLT with immediate B allowed as the suite documents).", "3/C06"),
 "C07": ("differential monitor: real assembler vs independent big.Int precedence-climbing evaluator on generated expressions in four positions (operand, ORG, FOR count, ;assert)",
         "Runtime monitoring of expression evaluation: tens of thousands of expression trees with sign runs, negative division/remainder operands, EQU-introduced signs and predefined constants are placed in operand fields (exact recovery under core size 2^34), ORG, FOR counts and ;assert lines; the assembled value / accept-reject decision must match exact integer arithmetic.",
         "Trusted: ref/asm/expr.go evaluator. Values beyond 32 bits are only required not to panic.", "3/C07"),
 "C08": ("three-way differential monitor: CompileWarrior(FOR program) vs CompileWarrior(harness-made unrolling) vs by-construction meaning; known-finding strata with exact signatures",
         "Runtime monitoring of FOR/ROF expansion on generated block trees (sequence, nesting <= 3, zero counts, EQU counts, counters in arithmetic, block labels). Two genuine defects are recorded as known findings and matched by input predicate + exact error text; every other discrepancy is a violation.",
         "Trusted: ref/asm Unroll + Meaning. FOR counts only see EQUs written before the block (gmars' documented scanning order).", "3/C08"),
 "C09": ("round-trip monitor: canonical printer + layout perturbations -> real ParseLoadFile and real CompileWarrior on the same text -> compare with the printed warrior; first instruction enumerates every legal form",
         "Runtime monitoring of load-file round trips in both dialects with unsigned/signed/congruent field spellings and products of ten layout-only perturbations; both readers must reproduce code and entry point exactly.",
         "Trusted: the printer in ref/asm/loadfile.go (layout of the repository's own test_files).", "3/C09"),
 "C10": ("predicate + conservation monitor on ParseLoadFile over corrupted and byte-by-byte truncated load files; structural line accountant as the independent count",
         "Runtime monitoring of the loader's rejection behaviour: corrupted canonical files (14 corruption kinds), truncation at every byte offset; on success the result must satisfy the well-formedness predicate, the '88 table, and the count of instructions must equal the count of instruction-shaped lines seen by a purely structural accountant (nothing skipped silently).",
         "Trusted: the accountant (first-field classification only) and the '88 table.", "3/C10"),
 "C14": ("Go race detector over a concurrent job mix (assemblies, loads, simulators sharing *WarriorData) with sequential-vs-concurrent result comparison; aliasing monitor (caller scribbles after AddWarrior)",
         "Runtime monitoring with the race detector: each job's concurrent result must equal its result when run alone, the detector must report nothing (reports counted from log files, de-duplicated), shared warrior data must stay untouched, and a simulator must be unaffected by later changes to the caller's data.",
         "Interleavings are those the Go scheduler produced (GOMAXPROCS 1/2/4/16, up to 32 goroutines); a clean run is not a proof of race freedom.", "3/C14"),
 "C16": ("independent pMARS-listing reader applied to the real LoadCode() output of warriors obtained through the real assembler/loader or hand-made; first instruction enumerates every form",
         "Runtime monitoring of the -A listing: every legal form, fields at the sign threshold, every entry point, three simulator modes; the listing read back with the pMARS conventions must denote exactly the warrior.",
         "Trusted: ref/asm ReadListing (START label, ORG START / END START, signed fields, '88 without modifiers).", "3/C16"),
 "C17": ("process monitor around the freshly built cmd/gmars: stdout/stderr/exit status parsed and compared with tallies of the reference MARS on by-construction warriors; preset table written from the README",
         "Runtime monitoring of the command-line tool over flag vectors (-s -p -c -l -8 -preset -F -r), generated and hand-made warriors with known fates; fixed placement: exact tallies from the reference MARS; random placement: conservation of rounds, agreement of tie counts and, on small cores, only outcomes that some placement the tool may draw produces (all placements enumerated by the reference).",
         "Trusted: ref/mars battle + ref/asm meaning; options are read as: limits = core size, distance = length, presets as in the README table.", "3/C17"),
}
NOT_YET = {}

def main():
    props = [json.loads(l) for l in open(os.path.join(HERE, "properties.jsonl"))]
    hook_commits = []
    try:
        out = subprocess.run(["git", "-C", "/repo", "log", "--format=%H %s"], capture_output=True, text=True).stdout
        for line in out.splitlines():
            h, s = line.split(" ", 1)
            if s.startswith("verif hook"):
                hook_commits.append(h)
    except Exception:
        pass
    checks, na = [], []
    for p in props:
        pid = p["id"]
        if pid in CHECKS:
            tech, text, note, ref = CHECKS[pid]
            checks.append({
                "property_id": pid,
                "quick_cmd": f"./check.sh {pid} quick",
                "thorough_cmd": f"./check.sh {pid} thorough",
                "evidence_file": f"/verif/evidence/{pid}.json",
                "replay_cmd_template": f"./check.sh {pid} replay {{path}}",
                "engine": "vrun",
                "level_claimed": {"category": "exploration", "text": text, "design_ref": "DESIGN.md section " + ref},
                "level_note": note,
                "technique": tech,
            })
        else:
            na.append({"property_id": pid, "reason": NOT_YET.get(pid, "check not built yet in this session (planned, see DESIGN.md section 3); not claimed until it runs silently on the unchanged tree")})
    m = {
        "version": 1,
        "setup_cmd": "./setup.sh",
        "hooks": {
            "guard": "verif",
            "enable": "go build -tags verif (the worker is rebuilt from /repo's working tree by every check; hook file: /repo/verif_hooks.go)",
            "baseline_off_cmd": "cd /repo && GOFLAGS=-mod=mod GOPROXY=off GOSUMDB=off GOTOOLCHAIN=local go test -json -vet=off -count=1 .",
            "source_commits": hook_commits,
            "add_only": True,
        },
        "engines": [{"name": "vrun", "path": "/verif/cmd/vrun", "serves_properties": sorted(CHECKS), "kind_free_text": "orchestrator: rebuilds the monitor worker (/verif/worker, tag verif) against /repo, shards deterministic workloads over 16 child processes, merges monitor observations, matches known findings, writes evidence"}],
        "checks": checks,
        "notes": "Technique family: runtime monitoring and sanitizers. Known findings and repaired defects: /verif/known_findings.txt (6 known: five C08, one C05; 35 fixed). Seeded changes used to validate the monitors: /verif/seeded/ (339 changes by sub-agents in ten rounds, 6 behaviour-preserving refactorings as negative controls); catch matrix in DESIGN.md section 5. Cross-cutting stimuli added because of them: history disturbance and reader delivery kinds (worker/disturb.go), cold-start bursts in fresh processes (worker/coldstart.go).",
        "not_applicable": na,
    }
    json.dump(m, open(os.path.join(HERE, "MANIFEST.json"), "w"), indent=1)
    print("MANIFEST.json:", len(checks), "checks,", len(na), "not claimed")

main()
