#!/usr/bin/env python3
"""Regenerates /verif/MANIFEST.json from the table below (kept in one place so it is always valid)."""
import json, os, subprocess
HERE = os.path.dirname(os.path.dirname(os.path.abspath(__file__)))

# id -> (technique, level text, level note, design ref)
CHECKS = {
 "C01": ("lock-step shadow monitor: real simulator vs reference ICWS'94 step (EMI94 transliteration) after every cycle, plus internal-invariant hook",
         "Runtime monitoring. Every one of the 7616 instruction forms is executed at the PC many times under independent random read/write limits and boundary-biased fields; after every step the monitor compares the whole core and the whole process queue with an independently written reference interpreter. Holds only for the executions produced (counts in the evidence file).",
         "Trusted: the reference interpreter in ref/mars (written from the ICWS'94 draft), the Go toolchain. M capped at 2^20.", "3/C01"),
}
NOT_YET = {}

def main():
    props = [json.loads(l) for l in open(os.path.join(HERE, "properties.jsonl"))]
    hook_commits = []
    try:
        out = subprocess.run(["git", "-C", "/repo", "log", "--format=%H %s"], capture_output=True, text=True).stdout
        for line in out.splitlines():
            h, s = line.split(" ", 1)
            if s.startswith("verif hook"):
                hook_commits.append(h)
    except Exception:
        pass
    checks, na = [], []
    for p in props:
        pid = p["id"]
        if pid in CHECKS:
            tech, text, note, ref = CHECKS[pid]
            checks.append({
                "property_id": pid,
                "quick_cmd": f"./check.sh {pid} quick",
                "thorough_cmd": f"./check.sh {pid} thorough",
                "evidence_file": f"/verif/evidence/{pid}.json",
                "replay_cmd_template": f"./check.sh {pid} replay {{path}}",
                "engine": "vrun",
                "level_claimed": {"category": "exploration", "text": text, "design_ref": "DESIGN.md section " + ref},
                "level_note": note,
                "technique": tech,
            })
        else:
            na.append({"property_id": pid, "reason": NOT_YET.get(pid, "check not built yet in this session (planned, see DESIGN.md section 3); not claimed until it runs silently on the unchanged tree")})
    m = {
        "version": 1,
        "setup_cmd": "./setup.sh",
        "hooks": {
            "guard": "verif",
            "enable": "go build -tags verif (the worker is rebuilt from /repo's working tree by every check; hook file: /repo/verif_hooks.go)",
            "baseline_off_cmd": "cd /repo && GOFLAGS=-mod=mod GOPROXY=off GOSUMDB=off GOTOOLCHAIN=local go test -json -vet=off -count=1 .",
            "source_commits": hook_commits,
            "add_only": True,
        },
        "engines": [{"name": "vrun", "path": "/verif/cmd/vrun", "serves_properties": sorted(CHECKS), "kind_free_text": "orchestrator: rebuilds the monitor worker (/verif/worker, tag verif) against /repo, shards deterministic workloads over 16 child processes, merges monitor observations, matches known findings, writes evidence"}],
        "checks": checks,
        "notes": "Technique family: runtime monitoring and sanitizers. Known findings: /verif/known_findings.jsonl. Seeded changes used to validate the monitors: /verif/seeded/.",
        "not_applicable": na,
    }
    json.dump(m, open(os.path.join(HERE, "MANIFEST.json"), "w"), indent=1)
    print("MANIFEST.json:", len(checks), "checks,", len(na), "not claimed")

main()
