#!/bin/bash
# usage: tools/refactortest.sh <worktree-of-/repo> [ids...]
# runs the quick checks against a (supposedly behaviour-preserving) variant of /repo: every check must stay silent.
cd "$(dirname "$0")/.."
WT=$1; shift
ids="$*"; [ -z "$ids" ] && ids="C01 C02 C03 C04 C05 C06 C07 C08 C09 C10 C11 C12 C13 C14 C15 C16 C17"
for p in $ids; do
  out=$(VERIF_REPO=$WT ./check.sh $p quick 2>&1); e=$?
  echo "$p exit=$e $(echo "$out" | grep -c '^VIOLATION') violations $(echo "$out" | grep -c '^INCONCLUSIVE') inconclusive $(echo "$out" | grep -c '^KNOWN') known"
  [ $e -ne 0 ] && echo "$out" | grep -A2 "^VIOLATION\|^HARNESS\|^BUILD" | head -9
done
