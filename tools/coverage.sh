#!/bin/bash
# Statement coverage of bobertlo/gmars under the quick workloads of the monitors (a sample of 3 of the 16 shards
# per property, both index parities): which parts of the code the checks never drive at all.
# Writes coverage/SUMMARY.txt (per function) and coverage/UNCOVERED.txt (source lines never executed).
set -u
cd "$(dirname "$0")/.."
export GOFLAGS=-mod=mod GOPROXY=off GOSUMDB=off GOTOOLCHAIN=local
REPO=${VERIF_REPO:-/repo}
W=$(mktemp -d /tmp/vcov-XXXXXX); trap 'rm -rf $W' EXIT
go build -tags verif -cover -coverpkg=github.com/bobertlo/gmars,verif/worker -o $W/vworker-cov ./worker || exit 2
(cd $REPO && go build -o $W/gmars-cli ./cmd/gmars) || exit 2
for p in C01 C02 C03 C04 C05 C06 C07 C08 C09 C10 C11 C12 C13 C14 C15 C16 C17; do
  mkdir -p $W/$p
  for sh in 0 1 6; do
    GOCOVERDIR=$W/$p VERIF_REPO_DIR=$REPO VERIF_WORK=$W GMARS_BIN=$W/gmars-cli $W/vworker-cov -prop $p -tier quick -shard $sh -nshards 16 -out /dev/null >/dev/null 2>&1 &
  done
  wait
done
go tool covdata textfmt -i=$(ls -d $W/C* | tr '\n' ',' | sed 's/,$//') -o $W/all.txt || exit 2
(head -1 $W/all.txt; grep "bobertlo/gmars/" $W/all.txt | grep -v verif_hooks.go) > $W/g.txt
mkdir -p coverage
go tool cover -func=$W/g.txt | sed 's#github.com/bobertlo/gmars/##' > coverage/SUMMARY.txt
awk 'NR>1 && $NF==0 {print $1}' $W/g.txt | sed 's#github.com/bobertlo/gmars/##' | while IFS= read -r l; do
  f=${l%%:*}; rest=${l#*:}; ln=${rest%%.*}
  echo "$f:$ln  $(sed -n "${ln}p" $REPO/$f | sed 's/^[ \t]*//' | cut -c1-100)"
done > coverage/UNCOVERED.txt
tail -1 coverage/SUMMARY.txt
